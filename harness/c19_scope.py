"""C19 (ii): free / bound names of embedded statement blocks -- spec/PyScope.tla.

Programs of a bounded statement grammar are written as TLA+ literals; TLC computes the free and
bound name sets (PyScope.tla); CPython's symtable judges the specification; then Mako's
PythonCode.declared/undeclared_identifiers and strict_undefined renders are compared with them.
Identifiers are named after the ROLE they play (fr_* read-only names that must come from the
template namespace, tb_* names bound at the top of the block, pa_* parameters, nl_* names local to
a nested scope), so that a disagreement is classified by role.
"""
import copy
import re
import symtable

from . import core
from .core import MachineryError


# ---- abstract syntax builders
def N(i):
    return {"k": "name", "id": i}


def C():
    return {"k": "const"}


def Op(*a):
    return {"k": "op", "args": list(a)}


def Call(*a):
    """an `op` whose first operand is called with the others (the scoping is the same: all operands are read)"""
    return {"k": "op", "args": list(a), "call": True}


def P(posonly=(), pos=(), vararg="", kwonly=(), kwarg="", defaults=(), kwdefaults=()):
    return {"posonly": list(posonly), "pos": list(pos), "vararg": vararg, "kwonly": list(kwonly), "kwarg": kwarg,
            "defaults": list(defaults), "kwdefaults": list(kwdefaults)}


def Lam(params, body):
    return {"k": "lambda", "params": params, "body": body}


def Gen(targets, it, ifs=()):
    return {"targets": list(targets), "iter": it, "ifs": list(ifs)}


def Comp(kind, elts, gens):
    return {"k": "comp", "kind": kind, "elts": list(elts), "gens": list(gens)}


def Asg(targets, value):
    return {"k": "assign", "targets": list(targets), "value": value}


def Def(name, params, body, decorators=(), annots=()):
    """annots: annotation expressions, given to the positional parameters in order, the last one to the return"""
    return {"k": "def", "name": name, "params": params, "body": list(body), "decorators": list(decorators), "annots": list(annots)}


def T(x):
    """target pattern: a name, or a list of patterns (tuple target)"""
    return {"k": "tname", "id": x} if isinstance(x, str) else x


def TT(*elts, **kw):
    return {"k": "ttuple", "elts": [T(e) for e in elts], "brackets": kw.get("brackets", "()")}


def TStar(x):
    return {"k": "tstar", "elt": T(x)}


def AsgX(pats, value):
    """chained assignment  pat1 = pat2 = ... = value"""
    return {"k": "assignx", "pats": [T(x) for x in pats], "value": value}


def Walrus(name, value):
    return {"k": "walrus", "id": name, "value": value}


def Ret(v):
    return {"k": "return", "value": v}


def catalogue():
    """single statements (or short fixed sequences) of the grammar"""
    c = []
    add = lambda name, *stmts: c.append((name, list(stmts)))
    add("assign", Asg(["tb_a"], N("fr_val")))
    add("assign-tuple", Asg(["tb_a", "tb_b"], N("fr_pair")))
    add("expr-call", {"k": "expr", "value": Op(N("fr_fn"), N("fr_arg"))})
    add("aug", Asg(["tb_a"], N("fr_val")), {"k": "augassign", "target": "tb_a", "value": N("fr_inc")})
    add("for", {"k": "for", "targets": ["tb_i"], "iter": N("fr_iter"), "body": [Asg(["tb_x"], Op(N("tb_i"), N("fr_inloop")))], "orelse": []})
    add("for-else-tuple", {"k": "for", "targets": ["tb_i", "tb_j"], "iter": N("fr_pairs"), "body": [Asg(["tb_x"], N("tb_j"))],
                           "orelse": [Asg(["tb_e"], N("fr_else"))]})
    add("while", {"k": "while", "test": N("fr_cond"), "body": [Asg(["tb_w"], N("fr_inwhile")), {"k": "break"}], "orelse": []})
    add("if", {"k": "if", "test": N("fr_cond"), "body": [Asg(["tb_t"], N("fr_then"))], "orelse": [Asg(["tb_f"], N("fr_other"))]})
    add("try", {"k": "try", "body": [Asg(["tb_t"], Op(N("fr_fn"), N("fr_arg")))], "exname": "tb_err", "extype": N("fr_exc"),
                "handler": [Asg(["tb_h"], N("fr_handler"))], "final": [Asg(["tb_fin"], N("fr_final"))]})
    add("try-noname", {"k": "try", "body": [Asg(["tb_t"], N("fr_val"))], "exname": "", "extype": N("fr_exc"),
                       "handler": [Asg(["tb_h"], N("fr_handler"))], "final": []})
    add("with-as", {"k": "with", "ctx": N("fr_cm"), "asname": "tb_cm", "body": [Asg(["tb_in"], Op(N("tb_cm"), N("fr_inwith")))]})
    add("with", {"k": "with", "ctx": N("fr_cm"), "asname": "", "body": [Asg(["tb_in"], N("fr_inwith"))]})
    add("import-as", {"k": "import", "names": ["tb_os"], "form": "import os as tb_os"})
    add("import-dotted", {"k": "import", "names": ["os"], "form": "import os.path"})
    add("from-import-as", {"k": "import", "names": ["tb_sep"], "form": "from os import sep as tb_sep"})
    add("from-import", {"k": "import", "names": ["sep"], "form": "from os import sep"})
    add("def", Def("tb_f", P(pos=["pa_pos"]), [Ret(Op(N("pa_pos"), N("fr_indef")))]), Asg(["tb_r"], Op(N("tb_f"), C())))
    add("def-default", Def("tb_f", P(pos=["pa_def"], defaults=[N("fr_ddef")]), [Ret(N("pa_def"))]))
    add("def-vararg", Def("tb_f", P(vararg="pa_varg"), [Ret(Op(N("pa_varg"), N("fr_indef")))]))
    add("def-kwarg", Def("tb_f", P(kwarg="pa_kwarg"), [Ret(Op(N("pa_kwarg"), N("fr_indef")))]))
    add("def-kwonly", Def("tb_f", P(kwonly=["pa_kwonly"], kwdefaults=[N("fr_kwdef")]), [Ret(N("pa_kwonly"))]))
    add("def-posonly", Def("tb_f", P(posonly=["pa_posonly"], pos=["pa_pos"]), [Ret(Op(N("pa_posonly"), N("pa_pos")))]))
    add("def-decorator", Def("tb_f", P(), [Ret(N("fr_indef"))], decorators=[N("fr_deco")]))
    add("def-local", Def("tb_f", P(), [Asg(["nl_local"], N("fr_indef")), Ret(N("nl_local"))]))
    add("def-nested", Def("tb_f", P(pos=["pa_pos"]), [
        Def("nl_g", P(pos=["pa_inner"], defaults=[N("fr_innerdef")]), [Ret(Op(N("pa_pos"), N("pa_inner"), N("fr_deep")))]),
        Ret(Op(N("nl_g")))]))
    add("def-closure", Asg(["tb_a"], N("fr_val")), Def("tb_f", P(), [Ret(N("tb_a"))]))
    add("def-for-local", Def("tb_f", P(), [{"k": "for", "targets": ["nl_for"], "iter": N("fr_iter"), "body": [Asg(["nl_local"], N("nl_for"))], "orelse": []},
                                           Ret(N("nl_local"))]))
    add("def-with-local", Def("tb_f", P(), [{"k": "with", "ctx": N("fr_cm"), "asname": "nl_with", "body": [Ret(N("nl_with"))]}]))
    add("def-except-local", Def("tb_f", P(), [{"k": "try", "body": [Ret(N("fr_indef"))], "exname": "nl_exc", "extype": N("fr_exc"),
                                               "handler": [Ret(N("nl_exc"))], "final": []}]))
    add("def-import-local", Def("tb_f", P(), [{"k": "import", "names": ["nl_imp"], "form": "import os as nl_imp"}, Ret(N("nl_imp"))]))
    add("def-aug-local", Def("tb_f", P(pos=["pa_pos"]), [{"k": "augassign", "target": "pa_pos", "value": N("fr_inc")}, Ret(N("pa_pos"))]))
    add("lambda", Asg(["tb_l"], Lam(P(pos=["pa_lam"]), Op(N("pa_lam"), N("fr_inlam")))))
    add("lambda-default", Asg(["tb_l"], Lam(P(pos=["pa_lam"], defaults=[N("fr_lamdef")]), N("pa_lam"))))
    add("lambda-vararg", Asg(["tb_l"], Lam(P(vararg="pa_lamvarg"), Op(N("pa_lamvarg"), N("fr_inlam")))))
    add("lambda-kwarg", Asg(["tb_l"], Lam(P(kwarg="pa_lamkwarg"), N("pa_lamkwarg"))))
    add("lambda-kwonly", Asg(["tb_l"], Lam(P(kwonly=["pa_lamkwonly"], kwdefaults=[N("fr_lamkwdef")]), N("pa_lamkwonly"))))
    for kind in ("list", "set", "gen", "dict"):
        add(kind + "comp", Asg(["tb_c"], Comp(kind, [Op(N("nl_comp"), N("fr_compelt"))] * (2 if kind == "dict" else 1),
                                              [Gen(["nl_comp"], N("fr_iter"), [Op(N("nl_comp"), N("fr_compif"))])])))
    add("listcomp-2gen", Asg(["tb_c"], Comp("list", [Op(N("nl_comp"), N("nl_comp2"))],
                                            [Gen(["nl_comp"], N("fr_iter")), Gen(["nl_comp2"], Op(N("nl_comp"), N("fr_compiter2")))])))
    add("listcomp-tuple-target", Asg(["tb_c"], Comp("list", [N("nl_comp")], [Gen(["nl_comp", "nl_comp2"], N("fr_pairs"))])))
    add("listcomp-in-def", Def("tb_f", P(pos=["pa_pos"]), [Ret(Comp("list", [Op(N("nl_compindef"), N("fr_compelt"))], [Gen(["nl_compindef"], N("pa_pos"))]))]))
    add("genexp-in-def", Def("tb_f", P(pos=["pa_pos"]), [Ret(Comp("gen", [Op(N("nl_compindef"), N("fr_compelt"))],
                                                                  [Gen(["nl_compindef"], N("fr_iter"), [N("pa_pos")])]))]))
    add("listcomp-in-lambda", Asg(["tb_l"], Lam(P(pos=["pa_lam"]), Comp("list", [Op(N("nl_compinlam"), N("pa_lam"))], [Gen(["nl_compinlam"], N("fr_iter"))]))))
    # --- two levels of nesting, then a free read, in the ENCLOSING function, of a name an inner scope binds
    # (inner parameter / local / for target / comprehension variable); the enclosing function is called.
    # fr_reuse*: the name is free where it is read although an inner scope binds the same name.
    call_f = Asg(["tb_r"], Call(N("tb_f"), C()))
    add("def-in-def-param", Def("tb_f", P(pos=["pa_pos"]), [
        Def("nl_g", P(pos=["fr_reusep"]), [Ret(N("fr_reusep"))]),
        Ret(Op(Call(N("nl_g"), N("pa_pos")), N("fr_reusep")))]), call_f, Asg(["tb_y"], N("fr_reusep")))
    add("def-in-def-local", Def("tb_f", P(), [
        Def("nl_g", P(), [Asg(["fr_reusel"], C()), Ret(N("fr_reusel"))]),
        Ret(Op(Call(N("nl_g")), N("fr_reusel")))]), Asg(["tb_r"], Call(N("tb_f"))), Asg(["tb_y"], N("fr_reusel")))
    add("def-in-def-fortarget", Def("tb_f", P(), [
        Def("nl_g", P(), [{"k": "for", "targets": ["fr_reusef"], "iter": N("fr_iter"), "body": [Asg(["nl_local"], N("fr_reusef"))], "orelse": []},
                          Ret(N("nl_local"))]),
        Ret(Op(Call(N("nl_g")), N("fr_reusef")))]), Asg(["tb_r"], Call(N("tb_f"))))
    add("lambda-in-def", Def("tb_f", P(pos=["pa_pos"]), [
        Asg(["nl_l"], Lam(P(pos=["fr_reusea"]), N("fr_reusea"))),
        Ret(Op(Call(N("nl_l"), N("pa_pos")), N("fr_reusea")))]), call_f, Asg(["tb_y"], N("fr_reusea")))
    add("lambda-in-lambda", Asg(["tb_l"], Lam(P(pos=["pa_lam"]), Op(Call(Lam(P(pos=["fr_reuseb"]), N("fr_reuseb")), N("pa_lam")), N("fr_reuseb")))),
        Asg(["tb_r"], Call(N("tb_l"), C())))
    add("lambda-in-def-sortkey", Def("tb_f", P(pos=["pa_pos"]), [
        Asg(["nl_best"], Call(N("fr_fn"), N("pa_pos"), Lam(P(pos=["fr_reusek"]), Op(N("fr_reusek"), N("fr_inlam"))))),
        Ret(Op(N("fr_reusek"), N("nl_best")))]), call_f)
    add("comp-in-def-in-def", Def("tb_f", P(pos=["pa_pos"]), [
        Def("nl_g", P(pos=["pa_inner"]), [Ret(Comp("list", [N("fr_reusec")], [Gen(["fr_reusec"], N("pa_inner"))]))]),
        Ret(Op(Call(N("nl_g"), N("pa_pos")), N("fr_reusec")))]), Asg(["tb_r"], Call(N("tb_f"), N("fr_iter"))))
    add("comp-in-lambda-in-def", Def("tb_f", P(pos=["pa_pos"]), [
        Asg(["nl_l"], Lam(P(pos=["pa_lam"]), Comp("list", [N("fr_reused")], [Gen(["fr_reused"], N("pa_lam"))]))),
        Ret(Op(Call(N("nl_l"), N("pa_pos")), N("fr_reused")))]), Asg(["tb_r"], Call(N("tb_f"), N("fr_iter"))))
    add("def-in-def-in-def", Def("tb_f", P(pos=["pa_pos"]), [
        Def("nl_g", P(pos=["pa_inner"]), [
            Def("nl_h", P(pos=["fr_reusee"]), [Ret(N("fr_reusee"))]),
            Ret(Op(Call(N("nl_h"), N("pa_inner")), N("fr_reusee")))]),
        Ret(Op(Call(N("nl_g"), N("pa_pos")), N("fr_reusee")))]), call_f)
    # one level: the comprehension is the inner scope, the def the enclosing function
    add("comp-in-def-then-read", Def("tb_f", P(pos=["pa_pos"]), [
        Asg(["nl_l"], Comp("list", [N("fr_aftercomp")], [Gen(["fr_aftercomp"], N("pa_pos"))])),
        Ret(Op(N("nl_l"), N("fr_aftercomp")))]), Asg(["tb_r"], Call(N("tb_f"), N("fr_iter"))))
    add("genexp-in-def-then-read", Def("tb_f", P(pos=["pa_pos"]), [
        Asg(["nl_l"], Call(N("fr_fn"), Comp("gen", [N("fr_aftergen")], [Gen(["fr_aftergen"], N("pa_pos"))]))),
        Ret(Op(N("nl_l"), N("fr_aftergen")))]), Asg(["tb_r"], Call(N("tb_f"), N("fr_iter"))))
    # one level, then a free read at the top of the block
    add("def-param-then-top-read", Def("tb_f", P(pos=["fr_reuset"]), [Ret(N("fr_reuset"))]), call_f, Asg(["tb_y"], N("fr_reuset")))
    add("lambda-param-then-top-read", Asg(["tb_l"], Lam(P(pos=["fr_reuseu"]), N("fr_reuseu"))), Asg(["tb_r"], Call(N("tb_l"), C())),
        Asg(["tb_y"], N("fr_reuseu")))
    # --- Python's binding forms, each followed by reads of EVERY name it binds: in the same function, in a
    # nested function (closure); at the top of the block the harness also reads every bound name from the
    # template body and from a top-level def called by name, under strict_undefined
    def reads(*names):
        return [Def("tb_rd", P(), [Ret(Op(*[N(n) for n in names]))]), Asg(["tb_rr"], Call(N("tb_rd")))]

    def in_def(stmts, names):
        return [Def("tb_f", P(), stmts + [Ret(Op(*[N(n) for n in names]))]), Asg(["tb_r"], Call(N("tb_f")))]
    add("chain2", AsgX(["tb_a", "tb_b"], N("fr_val")), *reads("tb_a", "tb_b"))
    add("chain3", AsgX(["tb_a", "tb_b", "tb_c"], N("fr_val")), *reads("tb_a", "tb_b", "tb_c"))
    add("chain-tuple", AsgX(["tb_a", TT("tb_b", "tb_c")], N("fr_pair")), *reads("tb_a", "tb_b", "tb_c"))
    add("chain2-in-def", *in_def([AsgX(["nl_a", "nl_b"], N("fr_val"))], ["nl_a", "nl_b"]))
    add("chain3-in-def", *in_def([AsgX(["nl_a", "nl_b", "nl_c"], N("fr_val"))], ["nl_a", "nl_b", "nl_c"]))
    add("target-list", AsgX([TT("tb_a", "tb_b", brackets="[]")], N("fr_pair")), *reads("tb_a", "tb_b"))
    add("target-nested", AsgX([TT("tb_a", TT("tb_b", "tb_c"))], N("fr_nested")), *reads("tb_a", "tb_b", "tb_c"))
    add("target-starred-mid", AsgX([TT("tb_a", TStar("tb_b"), "tb_c")], N("fr_iter")), *reads("tb_a", "tb_b", "tb_c"))
    add("target-nested-in-def", *in_def([AsgX([TT("nl_a", TT("nl_b", TStar("nl_c")))], N("fr_nested"))], ["nl_a", "nl_b", "nl_c"]))
    add("target-attr", AsgX([{"k": "tattr", "obj": N("fr_obj")}], N("fr_val")), Asg(["tb_a"], N("fr_obj")))
    add("target-subscript", AsgX([{"k": "tsub", "obj": N("fr_map"), "index": N("fr_key")}], N("fr_val")), Asg(["tb_a"], N("fr_map")))
    add("chain-attr-name", AsgX([{"k": "tattr", "obj": N("fr_obj")}, "tb_a"], N("fr_val")), *reads("tb_a"))
    add("annassign", {"k": "annassign", "target": "tb_a", "hasvalue": True, "value": N("fr_val")}, *reads("tb_a"))
    add("annassign-novalue-in-def", *in_def([{"k": "annassign", "target": "nl_a", "hasvalue": False, "value": C()}, Asg(["nl_a"], N("fr_val"))], ["nl_a"]))
    add("walrus", Asg(["tb_a"], Op(Walrus("tb_w", N("fr_val")), N("tb_w"))), *reads("tb_a", "tb_w"))
    add("walrus-in-if", {"k": "if", "test": Walrus("tb_w", N("fr_cond")), "body": [Asg(["tb_t"], N("tb_w"))], "orelse": []}, *reads("tb_w"))
    add("walrus-in-comp", Asg(["tb_c"], Comp("list", [Walrus("tb_w", N("nl_comp"))], [Gen(["nl_comp"], N("fr_iter"))])), *reads("tb_c", "tb_w"))
    add("walrus-in-def", *in_def([Asg(["nl_a"], Op(Walrus("nl_w", N("fr_val")), N("nl_w")))], ["nl_a", "nl_w"]))
    add("walrus-in-lambda", Asg(["tb_l"], Lam(P(pos=["pa_lam"]), Op(Walrus("nl_w", N("pa_lam")), N("nl_w")))), Asg(["tb_r"], Call(N("tb_l"), C())))
    add("for-nested-target", {"k": "withx", "form": "for", "ctx": N("fr_nestedpairs"), "pat": TT("tb_i", TT("tb_j", "tb_k")),
                              "body": [Asg(["tb_x"], N("tb_k"))]}, *reads("tb_i", "tb_j", "tb_k", "tb_x"))
    add("with-tuple-target", {"k": "withx", "form": "with", "ctx": N("fr_cmpair"), "pat": TT("tb_a", "tb_b"),
                              "body": [Asg(["tb_in"], N("tb_b"))]}, *reads("tb_a", "tb_b", "tb_in"))
    add("with-as-in-def", *in_def([{"k": "withx", "form": "with", "ctx": N("fr_cmpair"), "pat": TT("nl_a", "nl_b"), "body": [Asg(["nl_in"], N("nl_b"))]}],
                                  ["nl_a", "nl_b", "nl_in"]))
    add("import-dotted-as", {"k": "import", "names": ["tb_osp"], "form": "import os.path as tb_osp"}, *reads("tb_osp"))
    add("import-two", {"k": "import", "names": ["tb_os", "tb_sys"], "form": "import os as tb_os, sys as tb_sys"}, *reads("tb_os", "tb_sys"))
    add("from-import-two", {"k": "import", "names": ["tb_sep", "tb_ls"], "form": "from os import sep as tb_sep, linesep as tb_ls"}, *reads("tb_sep", "tb_ls"))
    add("def-name-read", Def("tb_f", P(), [Ret(N("fr_indef"))]), *reads("tb_f"))
    add("class", {"k": "class", "name": "tb_K", "bases": [N("fr_base")], "body": [Asg(["nl_m"], N("fr_inclass")), Asg(["nl_n"], N("nl_m"))]},
        *reads("tb_K"))
    add("class-in-def", *in_def([{"k": "class", "name": "nl_K", "bases": [], "body": [Asg(["nl_m"], N("fr_inclass"))]}], ["nl_K"]))
    # further statement forms: starred assignment, del, annotations of a def, a decorator on a def inside a def
    add("assign-starred", {"k": "assign", "targets": ["tb_a", "tb_b"], "value": N("fr_pair"), "starred": True})
    add("del", Asg(["tb_a"], N("fr_val")), {"k": "del", "target": "tb_a"})
    add("def-annotations", Def("tb_f", P(pos=["pa_pos"]), [Ret(N("pa_pos"))], annots=[N("fr_ann"), N("fr_annret")]), call_f)
    add("def-in-def-decorator", Def("tb_f", P(), [Def("nl_g", P(), [Ret(N("fr_indef"))], decorators=[N("fr_deco")]), Ret(Call(N("nl_g")))]),
        Asg(["tb_r"], Call(N("tb_f"))))
    # dotted depth 1..4, with and without `as`, from-imports of dotted packages, several names per statement, a name
    # that is a prefix of another; real packages and the scratch package vpk/b/c/d written by install_packages()
    def rd(*names):
        return [Def("tb_rd", P(), [Ret(Op(*[N(n) for n in names]))]), Asg(["tb_rr"], Call(N("tb_rd")))]
    add("import-1", {"k": "import", "names": ["vpk"], "form": "import vpk"}, *rd("vpk"))
    add("import-2", {"k": "import", "names": ["vpk"], "form": "import vpk.b"}, *rd("vpk"))
    add("import-3", {"k": "import", "names": ["vpk"], "form": "import vpk.b.c"}, *rd("vpk"))
    add("import-4", {"k": "import", "names": ["vpk"], "form": "import vpk.b.c.d"}, *rd("vpk"))
    add("import-3-real", {"k": "import", "names": ["xml"], "form": "import xml.etree.ElementTree"}, *rd("xml"))
    add("import-3-real2", {"k": "import", "names": ["email"], "form": "import email.mime.text"}, *rd("email"))
    add("import-3-as", {"k": "import", "names": ["tb_c"], "form": "import vpk.b.c as tb_c"}, *rd("tb_c"))
    add("import-4-as", {"k": "import", "names": ["tb_d"], "form": "import vpk.b.c.d as tb_d"}, *rd("tb_d"))
    add("import-dotted-several", {"k": "import", "names": ["os", "xml", "tb_d"], "form": "import os.path, xml.etree.ElementTree, vpk.b.c.d as tb_d"},
        *rd("os", "xml", "tb_d"))
    add("import-prefix-names", {"k": "import", "names": ["vpk", "vpkx"], "form": "import vpk.vpkx, vpkx.vpk"}, *rd("vpk", "vpkx"))
    add("from-dotted-import", {"k": "import", "names": ["d"], "form": "from vpk.b.c import d"}, *rd("d"))
    add("from-dotted-import-as", {"k": "import", "names": ["tb_d", "tb_c"], "form": "from vpk.b.c import d as tb_d; from vpk.b import c as tb_c"},
        *rd("tb_d", "tb_c"))
    add("from-dotted-import-several", {"k": "import", "names": ["c", "tb_c"], "form": "from vpk.b import c, c as tb_c"}, *rd("c", "tb_c"))
    add("import-in-def-3", Def("tb_f", P(), [{"k": "import", "names": ["vpk"], "form": "import vpk.b.c"}, Ret(N("vpk"))]), Asg(["tb_r"], Call(N("tb_f"))))
    for nm, stmts in nested_scope_shapes():
        add(nm, *stmts)
    add("expr-genexp", {"k": "expr", "value": Op(N("fr_fn"), Comp("gen", [N("nl_comp")], [Gen(["nl_comp"], N("fr_iter"))]))})
    return c


PACKAGES = {
    "vpk/__init__.py": "", "vpk/b/__init__.py": "", "vpk/b/c/__init__.py": "", "vpk/b/c/d.py": "D = 1\n", "vpk/vpkx.py": "",
    "vpkx/__init__.py": "", "vpkx/vpk.py": "",
}


def install_packages(run):
    """scratch packages for the import forms, on sys.path for this run"""
    import os
    import sys
    d = run.subdir("pkgs")
    for fn, text in PACKAGES.items():
        path = os.path.join(d, fn)
        os.makedirs(os.path.dirname(path), exist_ok=True)
        with open(path, "w") as f:
            f.write(text)
    if d not in sys.path:
        sys.path.insert(0, d)
    for n in list(sys.modules):
        if n.split(".")[0] in ("vpk", "vpkx"):
            del sys.modules[n]


def nested_scope_shapes():
    """Python functions in a block as a nested-scope structure: a function holding a nested def / lambda / class /
    comprehension / generator expression as its first, middle or last statement, with stores before and AFTER it
    (plain, augmented, for target, a local called `loop`).  [(name, statements)]"""
    cons = {
        "def": [Def("nl_g", P(pos=["pa_inner"]), [Asg(["nl_in"], N("pa_inner")), Ret(N("nl_in"))])],
        "lambda": [Asg(["nl_l"], Lam(P(pos=["pa_lam"]), N("pa_lam")))],
        "class": [{"k": "class", "name": "nl_K", "bases": [], "body": [Asg(["nl_m"], C())]}],
        "listcomp": [Asg(["nl_c"], Comp("list", [N("nl_comp")], [Gen(["nl_comp"], N("fr_iter"))]))],
        "genexp": [Asg(["nl_ge"], Call(N("fr_fn"), Comp("gen", [N("nl_gv")], [Gen(["nl_gv"], N("fr_iter"))])))],
    }
    before = [Asg(["nl_before"], N("fr_val"))]
    after = [Asg(["nl_after"], N("fr_val")), {"k": "augassign", "target": "nl_after", "value": N("fr_inc")},
             {"k": "for", "targets": ["nl_ft"], "iter": N("fr_iter"), "body": [Asg(["nl_fb"], N("nl_ft"))], "orelse": []}]
    out = []

    def fn(name, body, ret):
        out.append((name, [Def("tb_f", P(), body + [Ret(Op(*[N(n) for n in ret]))]), Asg(["tb_r"], Call(N("tb_f")))]))
    for cn, c in cons.items():
        fn("scope-%s-first" % cn, c + after, ["nl_after", "nl_fb"])
        fn("scope-%s-middle" % cn, before + c + after, ["nl_before", "nl_after", "nl_fb"])
        fn("scope-%s-last" % cn, before + c, ["nl_before"])
    fn("scope-def-lambda-two", before + cons["def"] + [Asg(["nl_mid"], N("fr_val"))] + cons["lambda"] + after, ["nl_before", "nl_mid", "nl_after"])
    # a nested function whose body reads its own name (recursion, passing itself on): the name is a local of the enclosing
    # function, bound by the def statement itself
    fn("scope-def-reads-own-name", before + [Def("nl_g", P(pos=["pa_inner"]), [Ret(Call(N("fr_fn"), N("nl_g")))])] + after,
       ["nl_before", "nl_after", "nl_fb"])
    fn("scope-def-reads-own-name-only", [Def("nl_g", P(), [Asg(["nl_in"], N("nl_g")), Ret(N("nl_in"))])], ["nl_g"])
    fn("scope-lambda-then-loop-local", cons["lambda"] + [Asg(["loop"], N("fr_val"))], ["loop"])
    fn("scope-def-in-def-then-store", [Def("nl_g", P(), [Def("nl_h", P(), [Ret(C())]), Asg(["nl_deep"], N("fr_val")), Ret(N("nl_deep"))])] + after,
       ["nl_after"])
    return out


def tlc_sets(run, progs, name):
    """{id: (free, bound)} computed by TLC on PyScope.tla for programs given as TLA+ literals"""
    tla = "---- MODULE MC_PyScope ----\nEXTENDS PyScope\nProgsDef == " + core.to_tla([strip_form(p) for p in progs]) + "\n====\n"
    cfg = "CONSTANT Progs <- ProgsDef\nSPECIFICATION Spec\nINVARIANT WalkIsDefinition\nINVARIANT FreeBoundDisjoint\nCHECK_DEADLOCK FALSE\n"
    res = run.tlc("MC_PyScope", cfg, name=name, workers=4, coverage=True, timeout=240, extra_files={"MC_PyScope.tla": tla})
    if res.violated:
        run.spec_violation(res)
        return None
    exp = {}
    for r in res.json_lines():
        if isinstance(r, dict) and "free" in r and "bound" in r and "id" in r:
            exp[r["id"]] = (set(r["free"]), set(r["bound"]))
    if len(exp) != len(progs):
        raise MachineryError("PyScope printed %d of %d programs" % (len(exp), len(progs)))
    return exp


def rename(obj, suffix):
    """append a suffix to every role-named identifier (so that statements of a block do not share names)"""
    def rn(s):
        return s + suffix if re.match(r"(fr|tb|pa|nl)_", s) else s
    if isinstance(obj, dict):
        out = {}
        for k, v in obj.items():
            if k in ("id", "name", "target", "exname", "asname", "vararg", "kwarg") and isinstance(v, str):
                out[k] = rn(v) if v else v
            elif k in ("targets", "names", "pos", "posonly", "kwonly"):
                out[k] = [rn(x) for x in v]
            elif k == "form":
                out[k] = re.sub(r"\b((?:fr|tb|pa|nl)_\w+)", lambda m: m.group(1) + suffix, v)
            else:
                out[k] = rename(v, suffix)
        return out
    if isinstance(obj, list):
        return [rename(x, suffix) for x in obj]
    return obj


def role(name):
    return re.sub(r"_\d+$", "", name)


# ---- concretisation: abstract program -> Python source
def src_expr(e):
    k = e["k"]
    if k == "name":
        return e["id"]
    if k == "const":
        return "7"
    if k == "op":
        a = e["args"]
        if e.get("call") or (a and a[0]["k"] == "name" and role(a[0]["id"]) in ("fr_fn", "tb_f", "nl_g")):
            return "%s(%s)" % (src_expr(a[0]), ", ".join(src_expr(x) for x in a[1:]))
        return "(" + ", ".join(src_expr(x) for x in a) + ("," if len(a) == 1 else "") + ")"
    if k == "walrus":
        return "(%s := %s)" % (e["id"], src_expr(e["value"]))
    if k == "lambda":
        return "(lambda %s: %s)" % (src_params(e["params"]), src_expr(e["body"]))
    if k == "comp":
        gens = " ".join("for %s in %s%s" % (", ".join(g["targets"]) if len(g["targets"]) == 1 else "(" + ", ".join(g["targets"]) + ")",
                                            src_expr(g["iter"]), "".join(" if " + src_expr(x) for x in g["ifs"])) for g in e["gens"])
        if e["kind"] == "dict":
            return "{%s: %s %s}" % (src_expr(e["elts"][0]), src_expr(e["elts"][1]), gens)
        o, c = {"list": "[]", "set": "{}", "gen": "()"}[e["kind"]]
        return "%s%s %s%s" % (o, src_expr(e["elts"][0]), gens, c)
    raise MachineryError("expr kind %r" % k)


def src_pat(t, top=True):
    k = t["k"]
    if k == "tname":
        return t["id"]
    if k == "tstar":
        return "*" + src_pat(t["elt"], False)
    if k == "tattr":
        return src_expr(t["obj"]) + ".attr"
    if k == "tsub":
        return "%s[%s]" % (src_expr(t["obj"]), src_expr(t["index"]))
    inner = ", ".join(src_pat(x, False) for x in t["elts"])
    if t.get("brackets") == "[]":
        return "[" + inner + "]"
    return inner if top else "(" + inner + ")"


def src_params(p, annots=()):
    out = []
    pos = p["posonly"] + p["pos"]
    nd = len(p["defaults"])
    for i, n in enumerate(pos):
        d = i - (len(pos) - nd)
        ann = (": " + src_expr(annots[i])) if i < len(annots) - 1 else ""
        out.append(n + ann + ("=" + src_expr(p["defaults"][d]) if d >= 0 else ""))
        if p["posonly"] and i == len(p["posonly"]) - 1:
            out.append("/")
    if p["vararg"]:
        out.append("*" + p["vararg"])
    elif p["kwonly"]:
        out.append("*")
    for i, n in enumerate(p["kwonly"]):
        out.append(n + ("=" + src_expr(p["kwdefaults"][i]) if i < len(p["kwdefaults"]) else ""))
    if p["kwarg"]:
        out.append("**" + p["kwarg"])
    return ", ".join(out)


def src_block(ss, ind):
    out = []
    pad = "    " * ind
    for s in ss:
        k = s["k"]
        tg = lambda t: ", ".join(t) if len(t) == 1 else "(" + ", ".join(t) + ")"
        if k == "assign" and s.get("starred"):
            out.append(pad + "%s, *%s = %s" % (", ".join(s["targets"][:-1]), s["targets"][-1], src_expr(s["value"])))
        elif k == "assign":
            out.append(pad + "%s = %s" % (tg(s["targets"]), src_expr(s["value"])))
        elif k == "del":
            out.append(pad + "del " + s["target"])
        elif k == "assignx":
            out.append(pad + " = ".join(src_pat(t) for t in s["pats"]) + " = " + src_expr(s["value"]))
        elif k == "annassign":
            out.append(pad + "%s: 'T'%s" % (s["target"], (" = " + src_expr(s["value"])) if s["hasvalue"] else ""))
        elif k == "withx":
            if s["form"] == "for":
                out.append(pad + "for %s in %s:" % (src_pat(s["pat"]), src_expr(s["ctx"])))
            else:
                out.append(pad + "with %s as (%s):" % (src_expr(s["ctx"]), src_pat(s["pat"])))
            out += src_block(s["body"], ind + 1)
        elif k == "class":
            out.append(pad + "class %s%s:" % (s["name"], ("(" + ", ".join(src_expr(b) for b in s["bases"]) + ")") if s["bases"] else ""))
            out += src_block(s["body"], ind + 1)
        elif k == "augassign":
            out.append(pad + "%s += %s" % (s["target"], src_expr(s["value"])))
        elif k == "expr":
            out.append(pad + src_expr(s["value"]))
        elif k == "return":
            out.append(pad + "return " + src_expr(s["value"]))
        elif k == "break":
            out.append(pad + "break")
        elif k == "for":
            out.append(pad + "for %s in %s:" % (tg(s["targets"]), src_expr(s["iter"])))
            out += src_block(s["body"], ind + 1)
            if s["orelse"]:
                out.append(pad + "else:")
                out += src_block(s["orelse"], ind + 1)
        elif k in ("while", "if"):
            out.append(pad + "%s %s:" % (k, src_expr(s["test"])))
            out += src_block(s["body"], ind + 1)
            if s["orelse"]:
                out.append(pad + "else:")
                out += src_block(s["orelse"], ind + 1)
        elif k == "try":
            out.append(pad + "try:")
            out += src_block(s["body"], ind + 1)
            out.append(pad + "except %s%s:" % (src_expr(s["extype"]), (" as " + s["exname"]) if s["exname"] else ""))
            out += src_block(s["handler"], ind + 1)
            if s["final"]:
                out.append(pad + "finally:")
                out += src_block(s["final"], ind + 1)
        elif k == "with":
            out.append(pad + "with %s%s:" % (src_expr(s["ctx"]), (" as " + s["asname"]) if s["asname"] else ""))
            out += src_block(s["body"], ind + 1)
        elif k == "import":
            out.append(pad + s["form"])
        elif k == "def":
            for d in s["decorators"]:
                out.append(pad + "@" + src_expr(d))
            out.append(pad + "def %s(%s)%s:" % (s["name"], src_params(s["params"], s.get("annots", [])),
                                                (" -> " + src_expr(s["annots"][-1])) if s.get("annots") else ""))
            out += src_block(s["body"], ind + 1)
        else:
            raise MachineryError("stmt kind %r" % k)
    return out


def strip_form(obj):
    """the TLA+ side does not need the concrete import spelling"""
    if isinstance(obj, dict):
        return {k: strip_form(v) for k, v in obj.items() if k not in ("form", "call", "starred", "brackets")}
    if isinstance(obj, list):
        return [strip_form(x) for x in obj]
    return obj


# ---- CPython as judge of the specification
def symtable_sets(src):
    wrapped = "def __blk__():\n" + "\n".join("    " + l for l in src.split("\n")) + "\n"
    top = symtable.symtable(wrapped, "<blk>", "exec")
    fn = top.get_children()[0]
    bound = {s.get_name() for s in fn.get_symbols() if s.is_local()}
    free = set()
    # CPython >= 3.12 inlines comprehensions (PEP 709): symtable then lists their iteration variables
    # among the enclosing function's locals although they stay invisible there.  They are taken out
    # again when no other construct of the function binds the name (every name has one role here).
    import ast as _ast
    comp_locals = {n.id for c in _ast.walk(_ast.parse(wrapped)) if isinstance(c, _ast.comprehension)
                   for n in _ast.walk(c.target) if isinstance(n, _ast.Name)}
    bound -= {n for n in comp_locals if n.startswith("nl_")}

    def walk(t):
        for s in t.get_symbols():
            if s.is_global():
                free.add(s.get_name())
        for ch in t.get_children():
            walk(ch)
    walk(fn)
    return free, bound


class _Obj:
    def __repr__(self):
        return "<obj attr=%r>" % (getattr(self, "attr", None),)


def value_for(name):
    import contextlib
    r = role(name)
    if r in ("fr_iter",):
        return [1, 2, 3]
    if r == "fr_pairs":
        return [(1, 2), (3, 4)]
    if r == "fr_pair":
        return (5, 6)
    if r == "fr_nested":
        return (1, (2, 3))
    if r == "fr_nestedpairs":
        return [(1, (2, 3)), (4, (5, 6))]
    if r == "fr_cmpair":
        return contextlib.nullcontext((8, 9))
    if r == "fr_obj":
        return _Obj()
    if r == "fr_map":
        return {}
    if r == "fr_base":
        return object
    if r == "fr_cm":
        return contextlib.nullcontext(3)
    if r == "fr_exc":
        return Exception
    if r == "fr_deco":
        return lambda f: f
    if r == "fr_fn":
        return lambda *a: ("called", a)
    if r in ("fr_cond",):
        return True
    return "<%s>" % name


def _simple(v, depth=0):
    import types
    if isinstance(v, (types.FunctionType, types.ModuleType, types.GeneratorType)) or hasattr(v, "__enter__"):
        return "<%s>" % type(v).__name__
    if isinstance(v, BaseException):
        return "<exc %s>" % type(v).__name__
    if isinstance(v, (list, tuple)) and depth < 4:
        return [_simple(x, depth + 1) for x in v]
    if isinstance(v, (set, frozenset)):
        return sorted(repr(_simple(x, depth + 1)) for x in v)
    if isinstance(v, dict):
        return sorted((repr(_simple(k, depth + 1)), repr(_simple(x, depth + 1))) for k, x in v.items())
    return repr(v)


def native_values(src, free, bound):
    env = {n: value_for(n) for n in free}
    code = "def __blk__():\n" + "\n".join("    " + l for l in src.split("\n")) + "\n    return dict(locals())\n"
    try:
        g = dict(env)
        exec(compile(code, "<native>", "exec"), g)
        loc = g["__blk__"]()
        return {n: _simple(loc[n]) for n in sorted(bound) if n in loc}
    except Exception as e:  # noqa
        return "exc:" + type(e).__name__


def mako_values(src, free, bound):
    """the block in a <% %> under strict_undefined; every bound name is then read (a) in the template body and
    (b) inside a top-level def called by name from the body (which sees the body's assignments through the
    context).  Returns ({name: value} of (a), template) or ('exc:..', template); (b) must equal (a)."""
    from mako.template import Template
    got, got2 = {}, {}

    def grab(**kw):
        got.update(kw)
        return ""

    def grab2(**kw):
        got2.update(kw)
        return ""
    names = sorted(bound)
    t = "".join("<%%def name=\"rd__%s()\">${__grab2(%s=%s)}</%%def>" % (n, n, n) for n in names)
    t += "<%\n" + src + "\n%>\n"
    # each bound name is shown separately: a name deleted by Python (except ... as) is simply absent
    t += "".join("% try:\n${__grab(" + n + "=" + n + ")}\n% except NameError:\n% endtry\n" for n in names)
    t += "".join("% try:\n${rd__" + n + "()}\n% except NameError:\n% endtry\n" for n in names)
    env = {n: value_for(n) for n in free}
    env["__grab"] = grab
    env["__grab2"] = grab2
    try:
        Template(t, strict_undefined=True).render_unicode(**env)
        direct = {n: _simple(got[n]) for n in names if n in got}
        byname = {n: _simple(got2[n]) for n in names if n in got2}
        if byname != direct:
            return "exc:ByNameDefSees:%s" % sorted(set(direct.items()) ^ set(byname.items()), key=repr)[:2], t
        return direct, t
    except Exception as e:  # noqa
        return "exc:%s:%s" % (type(e).__name__, str(e)[:80]), t


def part_pyscope(run):
    install_packages(run)
    cat = catalogue()
    progs = []
    meta = {}

    def addprog(parts):
        body = []
        for i, (name, stmts) in enumerate(parts):
            body += rename(copy.deepcopy(stmts), "_%d" % (i + 1))
        pid = len(progs) + 1
        progs.append({"id": pid, "body": body})
        meta[pid] = "+".join(n for n, _ in parts)
    for item in cat:
        addprog([item])
    ncore = next(i for i, (n, _) in enumerate(cat) if n == "chain2")      # the binding-form shapes come after
    partners = cat[:4] + [c for c in cat if c[0] in ("def-closure", "listcomp", "lambda", "try")]
    for i, a in enumerate(cat):
        for j, b in enumerate(cat):
            if (i < ncore and j < ncore) or (i >= ncore and b in partners) or (j >= ncore and a in partners):
                addprog([a, b])
    ntr = 2500 if run.thorough else 300
    for _ in range(ntr):
        addprog([run.rng.choice(cat) for _ in range(3)])
    # nesting: a statement of the catalogue inside a compound statement / def body
    for name, stmts in cat:
        inner = rename(copy.deepcopy(stmts), "_9")
        pid = len(progs) + 1
        progs.append({"id": pid, "body": [{"k": "if", "test": N("fr_cond_1"), "body": inner, "orelse": []}]})
        meta[pid] = "if{" + name + "}"
    tla = "---- MODULE MC_PyScope ----\nEXTENDS PyScope\nProgsDef == " + core.to_tla([strip_form(p) for p in progs]) + "\n====\n"
    cfg = "CONSTANT Progs <- ProgsDef\nSPECIFICATION Spec\nINVARIANT WalkIsDefinition\nINVARIANT FreeBoundDisjoint\nCHECK_DEADLOCK FALSE\n"
    res = run.tlc("MC_PyScope", cfg, name="mc-pyscope", workers=4, coverage=True, timeout=240, extra_files={"MC_PyScope.tla": tla})
    if res.violated:
        run.spec_violation(res)
        return
    for a in ("Stmt", "Finish"):
        if not res.coverage.get(a, [0, 0])[1]:
            raise MachineryError("vacuous: action %s of PyScope never taken" % a)
    exp = {}
    for r in res.json_lines():
        if isinstance(r, dict) and "free" in r and "bound" in r and "id" in r:
            exp[r["id"]] = (set(r["free"]), set(r["bound"]))
    if len(exp) != len(progs):
        raise MachineryError("PyScope printed %d of %d programs" % (len(exp), len(progs)))
    from mako import ast as mast
    sigs = {}
    nren = 0
    for pr in progs:
        src = "\n".join(src_block(pr["body"], 0))
        free, bound = exp[pr["id"]]
        try:
            sfree, sbound = symtable_sets(src)
        except SyntaxError as e:
            raise MachineryError("generated block does not compile: %s\n%s" % (e, src))
        if (sfree, sbound) != (free, bound):
            raise MachineryError("PyScope.tla disagrees with CPython's symtable on\n%s\nspec free=%s bound=%s\nsymtable free=%s bound=%s"
                                 % (src, sorted(free), sorted(bound), sorted(sfree), sorted(sbound)))
        run.traces += 1
        found = []
        try:
            pc = mast.PythonCode(src)
            und, dec = set(pc.undeclared_identifiers), set(pc.declared_identifiers)
        except Exception as e:  # noqa
            found.append(("analysis", "exc:" + type(e).__name__, ""))
            und, dec = free, bound
        for n in sorted(free - und):
            found.append(("free-name-not-fetched", role(n), n))
        for n in sorted(und - free):
            found.append(("bound-name-demanded-from-context", role(n), n))
        for n in sorted(bound - dec):
            found.append(("binding-not-seen", role(n), n))
        for n in sorted(dec - bound):
            found.append(("inner-binding-leaks", role(n), n))
        if not found:
            # identifiers agree: the block must then run under strict_undefined exactly as natively
            nat = native_values(src, free, bound)
            mk, tsrc = mako_values(src, free, bound)
            nren += 1
            if nat != mk:
                mode = mk.split(":")[0] + ":" + mk.split(":")[1] if isinstance(mk, str) else "value-differs"
                found.append(("strict-render", mode, meta[pr["id"]]))
        for kind, what, n in found:
            sig = "pyscope:%s:%s" % (kind, what)
            if sig not in sigs:
                sigs[sig] = {"count": 0, "block": src, "name": n, "free": sorted(free), "bound": sorted(bound),
                             "mako_undeclared": sorted(und), "mako_declared": sorted(dec), "shape": meta[pr["id"]]}
            sigs[sig]["count"] += 1
    for sig in sorted(sigs):
        s = sigs[sig]
        run.violation(sig, "block %r (%s): name %s -- Python: free=%s bound=%s; Mako: undeclared=%s declared=%s [%d blocks]"
                      % (s["block"], s["shape"], s["name"], s["free"], s["bound"], s["mako_undeclared"], s["mako_declared"], s["count"]),
                      {k: v for k, v in s.items()})
    run.extra["pyscope"] = {"programs": len(progs), "strict_renders_compared": nren, "signatures": {k: v["count"] for k, v in sigs.items()}}
    run.sample({"part": "pyscope", "block": "\n".join(src_block(progs[60]["body"], 0)), "free": sorted(exp[progs[60]["id"]][0]),
                "bound": sorted(exp[progs[60]["id"]][1])}, limit=8)
    # negative control: symtable comparison must notice a wrong expected set
    pr = progs[0]
    src = "\n".join(src_block(pr["body"], 0))
    f0, b0 = exp[pr["id"]]
    run.negative_control(symtable_sets(src) != (f0 | {"zz_bogus"}, b0), "scope comparer accepted a corrupted free set")
