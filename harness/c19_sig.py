"""C19 (iv): signatures re-emitted by mako.ast.FunctionDecl.get_argument_expressions -- spec/PySig.tla.

TLC enumerates every legal parameter list of up to MaxParams parameters over {positional, positional
with default, *args, keyword-only required, keyword-only with default, **kw} with small default
expressions and prints the signature as written (the reference).  Each is placed in <%def>,
<%block args>, <%page args>, <%call args> and <%self:def args>; the generated function is read back
from Template.code and CPython compares the parameter lists (ast); the def and the call body are also
CALLED with only the required arguments, natively and through Mako, so that every default is relied on.
"""
import ast
import inspect
import itertools

from .core import MachineryError

SITES = ("page", "def", "block", "call", "nscall")
HEAD = "<%!\na = 5\nb = 3\n%>\n"
HEAD_F = HEAD.replace("%", "%%")          # inside %-format strings


def canon(fn_args, ref_has_kwarg=True, drop_context=False):
    """a parameter list as CPython sees it, without the parameters Mako adds itself"""
    a = fn_args
    pos = [x.arg for x in a.posonlyargs + a.args]
    dflt = [ast.dump(d) for d in a.defaults]
    if drop_context and pos and pos[0] == "context":
        pos = pos[1:]
    kwarg = a.kwarg.arg if a.kwarg else None
    if kwarg == "pageargs" and not ref_has_kwarg:
        kwarg = None
    return (pos, dflt, a.vararg.arg if a.vararg else None, [x.arg for x in a.kwonlyargs],
            [ast.dump(d) if d is not None else None for d in a.kw_defaults], kwarg)


def template_for(sig):
    return (HEAD_F + "<%%page args=\"%(s)s\"/>\n<%%def name=\"fd(%(s)s)\">D</%%def>\n<%%def name=\"w()\">W</%%def>\n"
            "<%%block name=\"bk\" args=\"%(s)s\">B</%%block>\n<%%call expr=\"w()\" args=\"%(s)s\">C</%%call>\n"
            "<%%self:w args=\"%(s)s\">N</%%self:w>\n") % {"s": sig}


SINGLE = {
    "page": HEAD_F + "<%%page args=\"%(s)s\"/>\n",
    "def": HEAD_F + "<%%def name=\"fd(%(s)s)\">D</%%def>\n",
    "block": HEAD_F + "<%%block name=\"bk\" args=\"%(s)s\">B</%%block>\n",
    "call": HEAD_F + "<%%def name=\"w()\">W</%%def>\n<%%call expr=\"w()\" args=\"%(s)s\">C</%%call>\n",
    "nscall": HEAD_F + "<%%def name=\"w()\">W</%%def>\n<%%self:w args=\"%(s)s\">N</%%self:w>\n",
}


def read_back(src, sites):
    """{site: canonical parameter list | 'exc:Type'} from Template.code"""
    from mako.template import Template
    try:
        code = Template(src).code
        mod = ast.parse(code)
    except Exception as e:  # noqa
        return {s: "exc:" + type(e).__name__ for s in sites}
    fns = sorted((n for n in ast.walk(mod) if isinstance(n, ast.FunctionDef)), key=lambda n: n.lineno)
    byname = {}
    for n in fns:
        byname.setdefault(n.name, []).append(n)
    bodies = byname.get("body", [])
    want = {"page": byname.get("render_body", [None])[0], "def": byname.get("render_fd", [None])[0],
            "block": byname.get("render_bk", [None])[0]}
    if "call" in sites and "nscall" in sites:
        want["call"] = bodies[0] if len(bodies) > 0 else None
        want["nscall"] = bodies[1] if len(bodies) > 1 else None
    elif "call" in sites or "nscall" in sites:
        want["call" if "call" in sites else "nscall"] = bodies[0] if bodies else None
    return {s: (want.get(s).args if want.get(s) is not None else "function-missing") for s in sites}


def call_plan(sig):
    """how to call f(sig) giving only the required arguments -- read from CPython's own view of the signature"""
    g = {"a": 5, "b": 3}
    params = list(inspect.signature(_native(sig, g)).parameters.values())
    args = []
    for i, p in enumerate(params):
        if p.default is not inspect.Parameter.empty or p.kind in (p.VAR_POSITIONAL, p.VAR_KEYWORD):
            continue
        args.append(("%d" % ((i + 1) * 10)) if p.kind == p.POSITIONAL_OR_KEYWORD else "%s=%d" % (p.name, (i + 1) * 10))
    return ", ".join(args), [p.name for p in params]


def _native(sig, g):
    names = [p.strip().lstrip("*").split("=")[0].strip() for p in _split(sig)]
    exec("def f(%s):\n    return dict(%s)\n" % (sig, ", ".join("%s=%s" % (n, n) for n in names)), g)
    return g["f"]


def _split(sig):
    return [p for p in sig.split(", ")]


def call_both(sig):
    """(native result, result through a <%def>, result through a <%call> body), each a repr or 'exc:Type'"""
    from mako.template import Template
    args, names = call_plan(sig)
    g = {"a": 5, "b": 3}
    try:
        nat = repr(sorted(eval("f(%s)" % args, {"f": _native(sig, g)}).items()))
    except Exception as e:  # noqa
        nat = "exc:" + type(e).__name__
    out = {}
    show = ", ".join("%s=%s" % (n, n) for n in names)
    tmpls = {
        "def": HEAD + "<%%def name=\"fd(%s)\">${grab(%s)}</%%def>${fd(%s)}" % (sig, show, args),
        "call": HEAD + "<%%def name=\"w2()\">${caller.body(%s)}</%%def><%%call expr=\"w2()\" args=\"%s\">${grab(%s)}</%%call>" % (args, sig, show),
    }
    for site, src in tmpls.items():
        got = {}

        def grab(**kw):
            got.update(kw)
            return ""
        try:
            Template(src).render_unicode(grab=grab)
            out[site] = repr(sorted(got.items()))
        except Exception as e:  # noqa
            out[site] = "exc:" + type(e).__name__
    return nat, out, tmpls


def part_pysig(run):
    from . import c19
    maxp = 5 if run.thorough else 4
    cfg = "CONSTANT MaxParams = %d\nSPECIFICATION Spec\nINVARIANT Legal\nCHECK_DEADLOCK FALSE\n" % maxp
    res = run.tlc("PySig", cfg, name="mc-pysig", workers=4, coverage=True, timeout=300)
    if res.violated:
        run.spec_violation(res)
        return
    c19.need_actions(res, ("AddParam", "Emit"), "PySig")
    cases = {}
    for c in res.json_lines():
        if isinstance(c, dict) and "kinds" in c and "text" in c:
            cases[c["text"]] = c
    if len(cases) < 400:
        raise MachineryError("PySig printed only %d signatures" % len(cases))
    if {k for c in cases.values() for k in c["kinds"]} != {"pos", "posdef", "vararg", "kwonly", "kwonlydef", "kwarg"}:
        raise MachineryError("not every parameter kind enumerated")
    plain = {}        # kinds -> the signature of that shape whose defaults are all the first expression
    for c in cases.values():
        if "a + b" not in c["text"] and "'s'" not in c["text"]:
            plain[tuple(c["kinds"])] = c
    refs = {}
    for text in cases:
        try:
            refs[text] = ast.parse("def f(%s): pass" % text).body[0].args        # CPython accepts every signature of the spec
        except SyntaxError as e:
            raise MachineryError("PySig.tla printed a signature CPython rejects: %r (%s)" % (text, e))
    memo = {}

    def static_mode(text, site):
        if (text, site) not in memo:
            got = read_back(template_for(text), SITES)
            if any(isinstance(v, str) for v in got.values()):
                got = {s: read_back(SINGLE[s] % {"s": text}, (s,))[s] for s in SITES}
            ref = refs[text]
            for s, v in got.items():
                if isinstance(v, str):
                    memo[(text, s)] = (v, None)
                else:
                    same = canon(v, ref.kwarg is not None, drop_context=True) == canon(ref)
                    memo[(text, s)] = ("ok" if same else "signature-differs", ast.unparse(v))
        return memo[(text, site)]

    def minimal(kinds, site, failing):
        for ln in range(1, len(kinds)):
            for idx in itertools.combinations(range(len(kinds)), ln):
                sub = tuple(kinds[i] for i in idx)
                if sub in plain and failing(plain[sub]["text"], site):
                    return sub
        return tuple(kinds)
    sigs = {}

    def report(c, site, mode, printed, failing, extra=None):
        sub = minimal(c["kinds"], site, failing)
        sig = "pysig:%s:%s:%s" % (site, ",".join(sub), mode)
        ex = plain.get(sub, c)
        if sig not in sigs:
            sigs[sig] = {"count": 0, "written": ex["text"], "example": c["text"], "printed": printed, "extra": extra}
        sigs[sig]["count"] += 1
    nexec = 0
    for text in sorted(cases):
        c = cases[text]
        for site in SITES:
            mode, printed = static_mode(text, site)
            nexec += 1
            if mode != "ok":
                report(c, site, mode, printed, lambda t, s: static_mode(t, s)[0] != "ok")
        # call with only the required arguments: every default is relied on
        nat, out, tmpls = call_both(text)
        for site, got in out.items():
            nexec += 1
            if got != nat and static_mode(text, site)[0] == "ok":
                report(c, site + "-called", "exc:" + got.split(":")[1] if got.startswith("exc:") else "values-differ", got,
                       lambda t, s: (lambda n, o, _: o[s.split("-")[0]] != n)(*call_both(t)), extra={"native": nat, "template": tmpls[site]})
    run.traces += nexec
    for sig in sorted(sigs):
        s = sigs[sig]
        run.violation(sig, "signature (%s) [e.g. (%s)] comes back from Template.code as %s [%d signatures]"
                      % (s["written"], s["example"], s["printed"], s["count"]),
                      {"written": s["written"], "example": s["example"], "printed": s["printed"], "extra": s["extra"],
                       "repro": "from mako import ast; print(ast.FunctionDecl('def f(%s):pass').get_argument_expressions())" % s["example"]})
    run.extra["pysig"] = {"signatures": len(cases), "executions": nexec, "finding_signatures": {k: v["count"] for k, v in sigs.items()}}
    k0 = next(t for t in sorted(cases) if cases[t]["kinds"] == ["posdef", "vararg", "kwonlydef", "kwonly"])
    run.sample({"part": "pysig", "kinds": cases[k0]["kinds"], "written": k0, "read_back_def": static_mode(k0, "def")[1]}, limit=10)
    # negative control: a reference with one default removed must be told apart
    other = ast.parse("def f(%s): pass" % k0.replace("=1", "", 1).replace("=a + b", "", 1).replace("='s'", "", 1)).body[0].args
    run.negative_control(canon(other) != canon(refs[k0]), "signature comparer accepted a dropped default")
