"""What is claimed: one entry per property with a built check.  bin/mkmanifest turns this into MANIFEST.json."""
import json
import os

VERIF = os.path.dirname(os.path.dirname(os.path.abspath(__file__)))

CLAIMED = {
    "C14": {
        "spec": "Lookup.tla, MC_Lookup.tla, Trace_Lookup.tla",
        "text": "TLC checks Fresh, SizeBound, StableIdentity, FirstDirWins, MissRaisesTopLevel, VanishedRaisesLookup, NoChecksSticky, "
                "RecoverAfterFailure, PutServed, ServedFromOwnFile exhaustively on bounded instances of Lookup.tla (all histories of "
                "tick/write/break/delete/get/has/put to the depth bound); TLC -simulate behaviours (length 30-40) are replayed action by "
                "action on a real TemplateLookup with a simulated clock and compared state by state; seeded random histories recorded from "
                "the real TemplateLookup are validated against Trace_Lookup.tla with the invariants evaluated after every event. Bounded, "
                "not a proof; the conformance step is what ties the code to the model.",
        "note": "Trusts TLC, the interposed clock (mako.codegen.time, mako.util.timeit), os.utime for mtimes, and the projection "
                "(result class, rendered version, object identity, key set, construction count). Unreadable files are not exercised.",
        "design_ref": "DESIGN.md section 3, C14",
        "technique": "TLA+ model checking (TLC) + spec-to-code replay + trace validation",
    },
    "C15": {
        "spec": "ModuleFile.tla, Trace_ModuleFile.tla",
        "text": "TLC checks ModuleIntegrity, LaterLoadSucceeds, NeverRaises, RewriteWhenDue, ReuseOtherwise, RendersCurrent, "
                "WriterExactlyWhenDue, PublishedIsCurrentGen exhaustively on ModuleFile.tla: 2-3 processes, one action per file-system "
                "call of Template._compile_from_file/_compile_module_file, a Crash at every label (and midway through the write), "
                "history steps between constructions. Real constructions run in child processes whose file-system calls are interposed; "
                "the parent schedules them one call at a time and kills them before/after/midway the k-th call (every k for the single "
                "writer, seeded for 1-8 concurrent writers); in half of the histories process p is ONE long-lived OS process that constructs the "
                "Template again and again (every sequence of <= 2 history steps between its constructions); the writing calls are also made to "
                "FAIL with OSError (Fail/Raise actions: the process lives on and its clean-up code runs); the entry points leading to one "
                "module path rotate (Template module_directory= / module_filename=, TemplateLookup module_directory= / modulename_callable=); after every event the module path on disk is projected and the whole trace "
                "is validated by Trace_ModuleFile.tla with the invariants evaluated after every event; TLC -simulate behaviours are "
                "replayed as schedules on real child processes. Bounded model checking plus conformance, not a proof.",
        "note": "Trusts TLC, the interposers in harness/modfile_child.py (os.stat, os.path.exists, os.open, os.write, os.close, os.rename/replace, "
                "shutil.move, tempfile.mkstemp, builtins.open, os.unlink), os._exit as process death, the completeness test of a module "
                "file (metadata trailer + compile). OS/power failure without fsync is outside the property.",
        "design_ref": "DESIGN.md section 3, C15",
        "technique": "TLA+ model checking (TLC) + crash-point enumeration on real processes + trace validation + schedule replay",
    },
    'C01': {       'design_ref': 'DESIGN.md section 3, C01 and Appendix A',
        'note': "Trusts TLC, CPython's parser as judge of Python syntax, the concretisation/tokenisation tables. Error positions (C11) and "
                'the polynomial-time clause are not checked; <% %> text compared modulo white space; tag heads and control bodies are '
                'atoms.',
        'spec': 'MakoLexer.tla, MC_MakoLexer.tla, Trace_MakoLexer.tla',
        'technique': 'TLA+ model checking (TLC) + spec-to-code replay + trace validation',
        'text': 'TLC checks Accounting (spans tile the source, images are the documented images, node positions), Progress, Iterations, '
                'ErrOrTree on a symbol-level reference lexer (one action per matcher of Lexer.parse, Python-lexical ExprScan) for every '
                'string of <=4 symbols over 16 directive symbols (thorough: 5; 6-7 on a hot sub-alphabet; ${ + <=5 expression symbols) and '
                'prints every acceptable outcome; each string is concretised (filler, non-ASCII, LF/CRLF from the seed), run through the '
                'real Lexer.parse and Template.render_unicode and compared on the normal form; long generated documents recorded from the '
                'real code are re-lexed by Trace_MakoLexer. Bounded, not a proof. The polynomial-time clause is not claimed.'},
    'C02': {       'design_ref': 'DESIGN.md section 3, C02',
        'note': 'Trusts TLC, markupsafe.escape / urllib / html.entities as the documented functions, the logging interposers. D/P/BF names '
                'are module-level only.',
        'spec': 'Filters.tla, MC_Filters.tla, Trace_Filters.tla, MC_ExprScan.tla (ExprScan in MakoLexer.tla)',
        'technique': 'TLA+ model checking (TLC) + spec-to-code replay + trace validation',
        'text': 'TLC checks PipelineOrder, NameTable, Monotone on all D x P x E x BF x construct configurations of a model of '
                'create_filter_callable and ScanSplit on grammar-generated bracket/quote/comment nestings; expected application sequences '
                'and splits are printed, every configuration/case is rendered by the real Mako with tagging callables and non-commuting '
                "builtin inputs and compared with reference implementations applied in TLC's order; application sequences observed through "
                'logging callables on random configurations are validated by Trace_Filters. Bounded, not a proof.'},
    'C04': {       'design_ref': 'DESIGN.md section 3, C04',
        'note': 'Trusts TLC and the projection helper passed through the context. Loop targets around by-name calls and reserved '
                'def/include arguments are not generated (property silent).',
        'spec': 'Scopes.tla, ScopesCtx.tla, Trace_Scopes.tla',
        'technique': 'TLA+ model checking (TLC) + spec-to-code replay + trace validation',
        'text': 'TLC walks the name-resolution chain of the generated code (closure, module, _import_ns, context with __M_locals, '
                'builtins, UNDEFINED/NameError), one action per hop, for every set of <=3 (thorough 4) of 10 binding sites x 12 read sites '
                'x strict_undefined. It checks ResolveTotalAndOrdered against the priority table, HopsAscending and StrictOnlyWhenMissing. '
                'ScopesCtx.tla models the context as a heap of dictionaries and checks ContextImmutable, KwargsExact, NoAliasHandedOut, '
                'KwObsExact, and ReservedRejected over 4 entry points x enable_loop x 10 assignment kinds. Every enumerated case and '
                'behaviour is rendered as a real template and compared. Seeded multi-variable templates are validated against '
                'Trace_Scopes.tla.'},
    'C06': {       'design_ref': 'DESIGN.md section 3, C06',
        'note': 'Trusts TLC, the op->template concretiser and the token guard (any exception in a guarded member call = ERR); action '
                'coverage taken from the N<=2 instance.',
        'spec': 'Inherit.tla, MC_Inherit.tla, MC_InheritCompile.tla, Trace_Inherit.tla',
        'technique': 'TLA+ model checking (TLC) + spec-to-code replay + trace validation',
        'text': 'TLC enumerates every inheritance configuration of four families (dispatch/blocks/args/dynamic inherit) up to chains of 4 '
                '(thorough 5), links the namespaces step by step as mako.runtime does, interprets the body/def/block scripts and checks '
                'SelfMostDerived, NextParentAdjacent, LocalIsOwn, BaseBodyRuns, BlockOnce, AnonInPlace, BodyArgs, MemoSound; every '
                "configuration is rendered as real templates (put_string and file-backed) and compared token by token with TLC's expected "
                'output; all template shapes of the duplicate/misplaced named-block clause are compiled and compared; seeded random longer '
                'chains are judged by Trace_Inherit.tla. Bounded, not a proof.'},
    'C07': {       'design_ref': 'DESIGN.md section 3, C07',
        'note': 'Trusts TLC and the concretiser; dot segments are exercised on file-backed lookups only; exception subclasses of '
                'TemplateLookupException are not distinguished.',
        'spec': 'UriPath.tla, Namespaces.tla, MC_Namespaces.tla, Trace_Namespaces.tla',
        'technique': 'TLA+ model checking (TLC) + spec-to-code replay + trace validation',
        'text': 'TLC enumerates layouts x writer directory x URI spelling x tag kind (incl. memo pairs and two-hop includes), namespace '
                'precedence patterns, inheritable namespaces and include position/target/argument patterns, checking RelativeToWriter, '
                'AbsoluteToRoot, UnresolvableRaisesLookup, MemoConsistent, InlineDefsWin, ImportsBeforeContext, InheritableReachable, '
                'IncludeIndependent, IncludeArgsFirst; every scenario is built on real directory trees (one/two roots) and put_string '
                'lookups and compared; random lookup sessions (bounded collections included) are judged by Trace_Namespaces.tla. Bounded, '
                'not a proof.'},
    'C19': {       'design_ref': 'DESIGN.md section 3, C19',
        'note': 'CPython is the judge of sameness. Off-spine operands are fixed leaves. Class bodies, match and async are outside the '
                'grammar. Known findings by signature.',
        'spec': 'PyExpr.tla, PyScope.tla, Remargin.tla, PySig.tla',
        'technique': 'TLA+ model checking (TLC) + spec-to-code replay with CPython as judge',
        'text': 'TLC enumerates every parent/position/child chain of 95 expression forms to 2 wraps (deeper by simulation) with a fully '
                'parenthesised reference and a precedence-table spelling. It computes free/bound name sets of ~2.5k statement blocks '
                '(WalkIsDefinition), and the true lexical state of every <% %> block of <=3 (4) line kinds (TableConsistent, Shape). '
                'CPython (ast, symtable, exec) judges both the specifications and Mako: expressions re-emitted by '
                'FunctionDecl/ArgumentList and read back from Template.code, declared/undeclared identifiers and strict_undefined renders, '
                'and adjust_whitespace plus full renders at 15 margins compared with native exec.'},
    'C11': {       'design_ref': 'DESIGN.md section 3, C11',
        'note': 'Trusts TLC and the geometry measurement of the catalog texts (lines_common.measure, exercised by negative controls: '
                'shifted template, corrupted line/column).',
        'spec': 'Layout.tla, Lines.tla, LinesCat.tla, MC_Lines.tla',
        'technique': 'TLA+ model checking (TLC) + spec-to-code replay',
        'text': 'TLC enumerates every layout (<=2 constructs before the planted fault [3 over a subset in thorough], <=1 after) x 80 fault '
                'entries x LF/CRLF, checks ReportAtFault and CursorIsPrefixSum on the lexer-cursor and pyparser arithmetic of Lines.tla '
                'and exports the position the property demands; each case is compiled by the real mako (string; '
                'file/lookup/module-directory sample) and exc.lineno/pos/filename/source, RichTraceback and the error templates are '
                'compared. Bounded, not a proof.'},
    'C12': {       'design_ref': 'DESIGN.md section 3, C12',
        'note': 'Chains are seeded samples, not exhaustive; stub frames not compared; PYTHONDONTWRITEBYTECODE=1.',
        'spec': 'Layout.tla, Lines.tla, LineMap.tla, Warn.tla, LinesCat.tla, MC_Lines.tla, MC_LineMap.tla',
        'technique': 'TLA+ model checking (TLC) + spec-to-code replay + state-based line-map validation',
        'text': 'Lines.tla exports the line every template-owned frame/warning must show for all layouts x planted raise/hop/warning (control-line expressions including the loop prologue); '
                'LineMap.tla checks EveryEmittedLineMapsHome on the PythonPrinter/full_line_map accounting; Warn.tla checks '
                'ShownExactlyOnce; cases and seeded include/namespace/inherit chains are rendered on five construction paths and '
                'RichTraceback records, error templates, format_exceptions, real full_line_map token pairs and shown warnings are '
                'compared. Bounded, not a proof.'},
    'C20': {       'design_ref': 'DESIGN.md section 3, C20',
        'note': 'Messages matched by unique text, order not compared; silent corners not generated (see assumptions in evidence).',
        'spec': 'Layout.tla, Extract.tla, ExtractCat.tla, MC_Extract.tla',
        'technique': 'TLA+ model checking (TLC) + spec-to-code replay',
        'text': 'TLC runs the comment-window machine of Extract.tla over all item sequences in the bound, checks EachCallOnceAtItsLine, '
                'NothingFromDecoys, CommentsAttachExactly against the planted truth and exports the expected tuples; every case goes '
                'through the Babel plugin (5 encodings) and the lingua plugin and the tuples are compared. Bounded, not a proof.'},
    'C16': {       'design_ref': 'DESIGN.md section 3, C16',
        'note': 'Trusts TLC, the scheduler and interposers (harness/sched.py), the declared footprints behind the sleep sets '
                '(cross-checked by unreduced DFS), simulated time; file deletion not exercised; line-level preemption bound 2 only on a '
                'tiny page.',
        'spec': 'LookupConc.tla, Trace_LookupConc.tla, RenderShared.tla, MC_RenderShared.tla, Trace_RenderShared.tla',
        'technique': 'TLA+ model checking (TLC, safety+liveness) + exhaustive deterministic scheduling of real threads with trace '
                     'validation + schedule replay',
        'text': 'TLC checks MutexDiscipline, FirstRequestsCompileOnce, CompleteObject, FreshSinceCallStart, OnlyDocumentedExceptions and '
                '(weak fairness, no state constraint) NoThreadBlocked on LookupConc for 2 threads (same/different URI, modify/break/tick '
                'steps) and 3 threads, and RenderIsolation/BoundUnderConcurrency/MemoStable/MemoCompleteWhenVisible/PrivateStacks on RenderShared; every '
                'interleaving of 2 real threads at the interposed lock/collection/file/clock points (sleep-set DFS; 3 threads preemption '
                'bound 2) is validated by Trace_LookupConc with the invariants evaluated in every state; TLC -simulate behaviours and the '
                'SpecDev counterexample are replayed as schedules on real threads; line-level schedules (sys.settrace; preemption bounds '
                '1-2, PCT, random) of 2-3 concurrent renders sharing inherit/namespace/include/cached def through a bounded lookup are '
                'validated by Trace_RenderShared. Bounded, not a proof.'},
    'C18': {       'design_ref': 'DESIGN.md section 3, C18',
        'note': 'Codec tables come from CPython (trusted; Encoding_Tables.tla is regenerated on every run). The BOM + utf8-alias corner '
                'and a BOM character in Template.source are accepted either way.',
        'spec': 'Encoding.tla, MC_Encoding.tla, Encoding_Tables.tla',
        'technique': 'TLA+ model checking (TLC) + spec-to-code replay',
        'text': 'TLC checks Precedence, ErrorsExact, SameTemplateAsDecodedText, RenderEncodes, RenderUnicodeIgnoresOutputEncoding over the '
                'full codec x BOM x comment x input_encoding x path grid and the output_encoding x errors grid, and prints the expected '
                'observation of every listed cell; each cell is concretised and run by the real mako in child processes on '
                'bytes/file/module-directory/fresh-process-reload and compared clause by clause. Bounded, not a proof.'},
    'C08': {       'design_ref': 'DESIGN.md section 3, C08',
        'note': 'Meaning(text, context) is uninterpreted (the first render fixes the digest); known findings F04, F23-F26.',
        'spec': 'Paths.tla, MC_Paths.tla, Trace_Paths.tla',
        'technique': 'TLA+ model checking (TLC) + spec-to-code replay + trace validation',
        'text': 'TLC checks PathIndependence, OwnSource, OwnCode, DefsAgree, ModuleFileReused, RegistryWeak on bounded histories of the '
                'code-shaped registry model (counterexamples replayed on real code and reported as findings); -simulate histories replayed '
                'on real Template objects; a seeded corpus realised on the eight paths in fresh processes under PYTHONHASHSEED 0/1/2/7 '
                'sharing a module directory and validated by Trace_Paths.tla. Bounded, not a proof.'},
    'C09': {       'design_ref': 'DESIGN.md section 3, C09',
        'note': "Trusts TLC, sys.addaudithook, POSIX path semantics without symlinks; '..name' first segments and out-and-back URIs "
                'accepted either way; file="" not generated (C07 finding F11).',
        'spec': 'Containment.tla, MC_Containment.tla, Enum_Containment.tla, Trace_Containment.tla',
        'technique': 'TLA+ model checking (TLC) + spec-to-code replay + trace validation',
        'text': 'TLC checks Contained, ModulePathInside, OutsideRaises, OutsideHitRefused, PipelinesAgree, SummaryMatches exhaustively on '
                'the step machine (adjust_uri / get_template probe loop / Template.__init__ as separate pipelines) for every URI up to 2 '
                '(thorough 3) segments in four root configurations, and SumOK for every URI of <=4 segments (thorough 5-6 on reduced '
                'alphabets) x direct/Template()/callers at depth 0..3; every exported request is replayed on a real TemplateLookup over a '
                'real tree with sentinel files outside the roots through get_template, has_template, Template(), put_string, include, '
                'inherit, namespace and the Namespace API, comparing outcome, filename, content, module path and audited file operations; '
                'random URIs up to 12 segments are judged by Trace_Containment.tla. Bounded, not a proof.'},
    'C10': {       'design_ref': 'DESIGN.md section 3, C10',
        'note': 'Character facts (entities, codecs, isspace) come from CPython and are trusted; universality over code points rests on the '
                'abstraction into ~32 classes.',
        'spec': 'Escape.tla, MC_Escape.tla, EscapeInput.tla, Trace_Escape.tla, Session_Escape.tla',
        'technique': 'TLA+ model checking (TLC) + spec-to-code replay + trace validation',
        'text': 'TLC checks Neutral, Invertible, UrlSafe, UrlInvertible, EntityExact, TrimOnlyEnds, DecodeStr, HandlerTotal on every '
                'string of length <=3 (thorough 4) over a 33-character alphabet and exports the expected output of h, x, u, entity, '
                'unescape, trim, decode and the htmlentityreplace handler for ascii/latin-1/cp1251/shift_jis/utf-8; every string is '
                'compared with the real filters and Template.render; every code point U+0000..U+10FFFF is swept by class against the shape '
                'TLC computed for its class representative; random Unicode strings are judged by Trace_Escape.tla; Session_Escape.tla models sessions of operations in ONE process '
                '(renders with charset x errors mode, direct str.encode with htmlentityreplace, the filters; HistoryIndependent, '
                'ProcUntouched, HandlerAlways) and every 2-operation session plus seeded 3-operation sessions run in forked children. '
                'Bounded, not a proof.'},
    'C17': {       'design_ref': 'DESIGN.md section 3, C17',
        'note': 'Trusts TLC, the concretisation (template text generator), the token/kwargs projection and the recording backend/proxy '
                '(exercised by negative controls). No wall-clock expiry; cache.set only on the reference backend; dogpile one region per '
                'template.',
        'spec': 'Cache.tla, MC_Cache.tla, Trace_Cache.tla, CacheProgs.tla',
        'technique': 'TLA+ model checking (TLC) + counterexample/spec-to-code replay + trace validation',
        'text': 'TLC checks AtMostOncePerKey, ExecIffMiss, ReplayExact, DisabledExecutesAlways, ArgsPrecedence, Isolation exhaustively on '
                'bounded worlds of Cache.tla (intended design: strict; code-shaped model: modulo three recorded deviations whose '
                'counterexamples are replayed on the real code); TLC -simulate histories of length 30 over seeded random templates '
                '(page/def/nested def/named+anonymous block, cache_key expressions, cache_* args, buffered/filter, namespaces, includes, '
                'inheritance, colliding URIs) are replayed action by action on real templates over the reference dict backend, Beaker '
                'memory/file and dogpile.cache, comparing outputs, execution counters and every backend call; seeded random histories '
                'recorded from real templates are validated against Trace_Cache.tla with all invariants evaluated after every event. '
                'Bounded, not a proof.'},
    'C05': {       'design_ref': 'DESIGN.md section 3, C05',
        'note': 'Trusts TLC, the concretiser, and the context-supplied markers/filters/decorators. Cached defs and the silent spots listed '
                'in evidence.assumptions are not generated.',
        'spec': 'Render.tla, MC_Render.tla',
        'technique': 'TLA+ model checking (TLC) + spec-to-code replay',
        'text': 'TLC executes the abstract render machine Render.tla on every (program, raise point) of a systematic family (def kind x '
                'call kind x surrounding construct) and of seeded programs (defs plain/buffered/filtered/decorated, all parameter kinds, '
                'capture, <%call>/<%ns:def> with body args and nested defs, nesting <= 4), checking StackDiscipline, CallerRestored, '
                'BufferRestored, NextCallerOnlyAroundCalls, CaptureLeavesOutput, FilterOnce, Balanced in every state; every terminal '
                "state's expected output tokens, per-mark stack observations and final stacks are compared with render_context() of the "
                'concretised template. Bounded, not a proof.'},
    'C13': {       'design_ref': 'DESIGN.md section 3, C13',
        'note': 'Bounded (<= 12/16 raise points per program); inheritance and cached sections are not covered.',
        'spec': 'Render.tla, MC_Render.tla',
        'technique': 'TLA+ model checking (TLC) + spec-to-code replay',
        'text': 'For every program x raise point (k-th marker, including markers in argument evaluation, filter functions and decorators) '
                'x handler position (% try at each ancestor level, include_error_handler, error_handler, format_exceptions, caller) TLC '
                'checks RestoredAtHandler, PartialDiscarded, BufferRestored, CallerRestored, LoopRevert, StackDiscipline, Balanced, '
                'Propagates in every state of Render.tla and prints the expectation; the real template is rendered for the same raise '
                'point and output after the handler, stack observations, exception identity, Context state after the failure and a second '
                'render are compared. Bounded, not a proof.'},
    'C03': {       'design_ref': 'DESIGN.md section 3, C03',
        'note': "Trusts TLC and the concretiser's layout choices; the silent spots and known findings are listed in evidence.",
        'spec': 'Render.tla, MC_Render.tla, PyPrinter.tla',
        'technique': 'TLA+ model checking (TLC) + spec-to-code replay',
        'text': 'PyPrinter.tla: TLC enumerates all legal control-line sequences (length <= 6/7, nesting <= 3/4) on the model of '
                'PythonPrinter.writeline + auto-pass with IndentEqualsNesting/BodyNeverEmpty/NoSpuriousClosure; bound sequences are '
                'compiled by the real generator and the line indentation of Template.code compared. Render.tla: nested '
                'if/for-else/while/try/with/<% %>/break/continue/return programs (depth <= 5, any iterable kind, enable_loop on/off/page) '
                'are executed by TLC per raise point with LoopRevert/LoopStackMatchesNesting checked; output tokens and all loop '
                'attributes at every mark are compared with the rendered template. Bounded, not a proof.'},
}

NOT_BUILT_REASON = "check not built yet (build in progress)"


def manifest():
    props = [json.loads(l)["id"] for l in open(os.path.join(VERIF, "properties.jsonl"))]
    checks = []
    for p in props:
        if p not in CLAIMED:
            continue
        c = CLAIMED[p]
        checks.append({
            "property_id": p,
            "quick_cmd": "bin/check %s --tier quick" % p,
            "thorough_cmd": "bin/check %s --tier thorough" % p,
            "evidence_file": "/verif/evidence/%s.json" % p,
            "replay_cmd_template": "bin/check %s --replay {path}" % p,
            "engine": "tlc+conformance",
            "level_claimed": {"category": "model_checking", "text": c["text"], "design_ref": c["design_ref"]},
            "level_note": c["note"],
            "technique": c["technique"],
        })
    na = [{"property_id": p, "reason": NOT_APPLICABLE.get(p, NOT_BUILT_REASON)} for p in props if p not in CLAIMED]
    return {
        "version": 1,
        "setup_cmd": "bin/setup",
        "hooks": {"guard": "MAKO_VERIF", "enable": "no source hooks are needed: the harness interposes on module attributes of mako at run time (PYTHONPATH=$MAKO_SRC, default /repo)",
                  "baseline_off_cmd": "cd /repo && /venv/bin/python -m pytest -q -p no:cacheprovider --timeout=900",
                  "source_commits": [], "add_only": True},
        "engines": [{"name": "tlc+conformance", "path": "/verif/bin/check",
                     "serves_properties": [c["property_id"] for c in checks],
                     "kind_free_text": "explicit TLA+ specifications under /verif/spec checked with TLC; bound to the code by replaying TLC behaviours into mako and by validating traces recorded from mako against the specifications"}],
        "checks": checks,
        "not_applicable": na,
        "notes": "exit 0 = held; exit 1 + VIOLATION line = violation; exit 2 = machinery failure (never a verdict). Known findings: /verif/known_findings.json.",
    }


NOT_APPLICABLE = {}


def _merge_as_built():
    """doc/registry_<Cxx>.json (written by whoever built the check, kept current with it) overrides the
    description of a claimed check: keys spec, text, note, technique."""
    import glob
    import json
    import os
    d = os.path.join(os.path.dirname(os.path.dirname(os.path.abspath(__file__))), "doc")
    for fn in sorted(glob.glob(os.path.join(d, "registry_C*.json"))):
        pid = os.path.basename(fn)[len("registry_"):-len(".json")]
        if pid in CLAIMED:
            with open(fn) as f:
                o = json.load(f)
            for k in ("spec", "text", "note", "technique"):
                if isinstance(o.get(k), str) and o[k].strip():
                    CLAIMED[pid][k] = o[k].strip()


_merge_as_built()
