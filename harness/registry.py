"""What is claimed: one entry per property with a built check.  bin/mkmanifest turns this into MANIFEST.json."""
import json
import os

VERIF = os.path.dirname(os.path.dirname(os.path.abspath(__file__)))

CLAIMED = {
    "C14": {
        "spec": "Lookup.tla, MC_Lookup.tla, Trace_Lookup.tla",
        "text": "TLC checks Fresh, SizeBound, StableIdentity, FirstDirWins, MissRaisesTopLevel, VanishedRaisesLookup, NoChecksSticky, "
                "RecoverAfterFailure, PutServed, ServedFromOwnFile exhaustively on bounded instances of Lookup.tla (all histories of "
                "tick/write/break/delete/get/has/put to the depth bound); TLC -simulate behaviours (length 30-40) are replayed action by "
                "action on a real TemplateLookup with a simulated clock and compared state by state; seeded random histories recorded from "
                "the real TemplateLookup are validated against Trace_Lookup.tla with the invariants evaluated after every event. Bounded, "
                "not a proof; the conformance step is what ties the code to the model.",
        "note": "Trusts TLC, the interposed clock (mako.codegen.time, mako.util.timeit), os.utime for mtimes, and the projection "
                "(result class, rendered version, object identity, key set, construction count). Unreadable files are not exercised.",
        "design_ref": "DESIGN.md section 3, C14",
        "technique": "TLA+ model checking (TLC) + spec-to-code replay + trace validation",
    },
    "C15": {
        "spec": "ModuleFile.tla, Trace_ModuleFile.tla",
        "text": "TLC checks ModuleIntegrity, LaterLoadSucceeds, NeverRaises, RewriteWhenDue, ReuseOtherwise, RendersCurrent, "
                "WriterExactlyWhenDue, PublishedIsCurrentGen exhaustively on ModuleFile.tla: 2-3 processes, one action per file-system "
                "call of Template._compile_from_file/_compile_module_file, a Crash at every label (and midway through the write), "
                "history steps between constructions. Real constructions run in child processes whose file-system calls are interposed; "
                "the parent schedules them one call at a time and kills them before/after/midway the k-th call (every k for the single "
                "writer, seeded for 1-8 concurrent writers); after every event the module path on disk is projected and the whole trace "
                "is validated by Trace_ModuleFile.tla with the invariants evaluated after every event; TLC -simulate behaviours are "
                "replayed as schedules on real child processes. Bounded model checking plus conformance, not a proof.",
        "note": "Trusts TLC, the interposers in harness/modfile_child.py (os.stat, os.path.exists, os.open, os.write, os.close, os.rename/replace, "
                "shutil.move, tempfile.mkstemp, builtins.open, os.unlink), os._exit as process death, the completeness test of a module "
                "file (metadata trailer + compile). OS/power failure without fsync is outside the property.",
        "design_ref": "DESIGN.md section 3, C15",
        "technique": "TLA+ model checking (TLC) + crash-point enumeration on real processes + trace validation + schedule replay",
    },
}

NOT_BUILT_REASON = "check not built yet (build in progress)"


def manifest():
    props = [json.loads(l)["id"] for l in open(os.path.join(VERIF, "properties.jsonl"))]
    checks = []
    for p in props:
        if p not in CLAIMED:
            continue
        c = CLAIMED[p]
        checks.append({
            "property_id": p,
            "quick_cmd": "bin/check %s --tier quick" % p,
            "thorough_cmd": "bin/check %s --tier thorough" % p,
            "evidence_file": "/verif/evidence/%s.json" % p,
            "replay_cmd_template": "bin/check %s --replay {path}" % p,
            "engine": "tlc+conformance",
            "level_claimed": {"category": "model_checking", "text": c["text"], "design_ref": c["design_ref"]},
            "level_note": c["note"],
            "technique": c["technique"],
        })
    na = [{"property_id": p, "reason": NOT_APPLICABLE.get(p, NOT_BUILT_REASON)} for p in props if p not in CLAIMED]
    return {
        "version": 1,
        "setup_cmd": "bin/setup",
        "hooks": {"guard": "MAKO_VERIF", "enable": "no source hooks are needed: the harness interposes on module attributes of mako at run time (PYTHONPATH=$MAKO_SRC, default /repo)",
                  "baseline_off_cmd": "cd /repo && /venv/bin/python -m pytest -q -p no:cacheprovider --timeout=900",
                  "source_commits": [], "add_only": True},
        "engines": [{"name": "tlc+conformance", "path": "/verif/bin/check",
                     "serves_properties": [c["property_id"] for c in checks],
                     "kind_free_text": "explicit TLA+ specifications under /verif/spec checked with TLC; bound to the code by replaying TLC behaviours into mako and by validating traces recorded from mako against the specifications"}],
        "checks": checks,
        "not_applicable": na,
        "notes": "exit 0 = held; exit 1 + VIOLATION line = violation; exit 2 = machinery failure (never a verdict). Known findings: /verif/known_findings.json.",
    }


NOT_APPLICABLE = {}
