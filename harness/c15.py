"""C15 -- module files are regenerated when stale and never observed half-written.

Specification: spec/ModuleFile.tla (several processes, one action per file-system call, Crash at every
label), spec/Trace_ModuleFile.tla.

 1. TLC checks ModuleIntegrity, LaterLoadSucceeds, NeverRaises, RewriteWhenDue, ReuseOtherwise,
    RendersCurrent, WriterExactlyWhenDue, PublishedIsCurrentGen exhaustively for 2 (thorough 3)
    processes, with and without module_writer.
 2. V: histories of {modify source (newer/equal/older mtime), tick, delete module, old-generator module,
    1..n concurrent constructions} are executed with every construction in its own child process
    (harness/modfile_child.py) or, in every other history, with process p of the model being ONE long-lived
    OS process that constructs the Template again and again (earlier Templates stay alive in it; it is
    replaced only after a crash); the parent grants one interposed file-system call at a time (the
    schedule) and kills children before / after / midway through chosen calls (true process death).
    After every event the module path on disk is projected (absent / complete / partial) and the whole
    event trace is validated by Trace_ModuleFile.tla.  Crash points are enumerated exhaustively for the
    single-writer protocol (every k, before/after/mid) and seeded-randomly in concurrent histories.
 3. R: TLC -simulate behaviours of ModuleFile.tla are replayed: the parent follows the behaviour's
    (action, process) sequence, checks that the child is at the expected call and that the observed
    result / module path state equals the spec state after every step.
"""
import concurrent.futures as cf
import copy
import json
import os
import random
import re
import shutil
import subprocess
import sys
import tempfile

from . import core
from .core import MachineryError

BASE = 1_000_000_000
OLD = BASE - 100000
CHILD = os.path.join(os.path.dirname(os.path.abspath(__file__)), "modfile_child.py")
MAGIC_RE = re.compile(r"_magic_number = (\d+)")


ENTRIES = ("moddir", "modfile", "lookup", "lookup-callable")     # entry points leading to one module path


class Child:
    def __init__(self, root, now, use_writer, entry="moddir"):
        self.p = subprocess.Popen([sys.executable, CHILD, root, str(now), "1" if use_writer else "0", entry],
                                  stdin=subprocess.PIPE, stdout=subprocess.PIPE, stderr=subprocess.PIPE, text=True, bufsize=1)
        self.at = None
        self.final = None
        self.dead = False
        self._advance()

    def _read(self):
        line = self.p.stdout.readline()
        if not line:
            return None
        return json.loads(line)

    def _advance(self):
        """read until the next point / final"""
        m = self._read()
        if m is None:
            self.dead = True
            self.at = None
            err = ""
            try:
                err = self.p.stderr.read()[-400:]
            except Exception:
                pass
            if self.final is None:
                self.final = {"final": "exc", "type": "ChildDied", "msg": err}
            return
        if "at" in m:
            self.at = m["at"]
        elif "final" in m:
            self.final = m
            self.at = None
        else:
            raise MachineryError("child protocol: unexpected %r" % (m,))

    def grant(self, cmd):
        """returns the event produced by the call (None when the child dies before it)"""
        self.p.stdin.write(cmd + "\n")
        self.p.stdin.flush()
        if cmd in ("die", "mid"):
            self.p.wait(timeout=30)
            self.dead = True
            self.at = None
            return None
        ev = self._read()
        if ev is None:
            self.dead = True
            self.at = None
            return {"ev": "?", "error": "ChildDied"}
        if cmd == "go-die":
            self.p.wait(timeout=30)
            self.dead = True
            self.at = None
            return ev
        self._advance()
        return ev

    def again(self, now):
        """the same process constructs the Template once more"""
        self.final = None
        self.p.stdin.write("again %d\n" % now)
        self.p.stdin.flush()
        self._advance()

    def kill(self):
        try:
            self.p.kill()
            self.p.wait(timeout=10)
        except Exception:
            pass
        for f in (self.p.stdin, self.p.stdout, self.p.stderr):
            try:
                f.close()
            except Exception:
                pass


class World:
    def __init__(self, base, use_writer, reuse=False, entry="moddir", symlink=False):
        self.symlink = symlink    # the source path is a symbolic link to a file kept elsewhere (rewritten in place)
        self.entry = entry
        self.reuse = reuse        # process p of the model is ONE long-lived OS process (until it crashes)
        self.resting = {}
        self.root = tempfile.mkdtemp(prefix="mv-mf-", dir=base)
        os.makedirs(os.path.join(self.root, "src"))
        self.src = os.path.join(self.root, "src", "t.html")
        if symlink:
            os.makedirs(os.path.join(self.root, "store"))
            os.symlink(os.path.join(self.root, "store", "t.html"), self.src)
        self.moddir = os.path.join(self.root, "mods")
        self.modpath = os.path.join(self.moddir, "t.html.py")
        self.now = 1
        self.ver = 1
        self.use_writer = use_writer
        self.children = {}
        self.tmpnames = {}
        self.sub = 0
        self._write_src(0)

    def close(self):
        for c in list(self.children.values()) + list(self.resting.values()):
            c.kill()
        shutil.rmtree(self.root, ignore_errors=True)

    def frac(self):
        """Real mtimes have a sub-second part; the model's time unit is the whole second (what the code
        compares: stat[ST_MTIME]).  Fractions grow with the order of events, so they never contradict it."""
        self.sub = min(self.sub + 1, 18)
        return self.sub * 0.05

    def _write_src(self, mt):
        with open(self.src, "w") as f:
            f.write("v%d x" % self.ver)
        os.utime(self.src, (OLD, BASE + mt + self.frac()))

    def post(self):
        """projection of the module path"""
        if not os.path.exists(self.modpath):
            return {"st": "absent", "from": 0, "magic": 0}
        with open(self.modpath, "rb") as f:
            txt = f.read().decode("utf-8", "replace")
        complete = txt.rstrip().endswith('"""') and "__M_END_METADATA" in txt
        if complete:
            try:
                compile(txt, "m", "exec")
            except Exception:
                complete = False
        frm = -1
        if "__M_writer('v" in txt:
            try:
                frm = int(txt.split("__M_writer('v")[1].split()[0].rstrip("')"))
            except Exception:
                frm = -1
        m = MAGIC_RE.search(txt)
        if not complete:
            return {"st": "partial", "from": frm, "magic": int(m.group(1)) if m else -1}
        return {"st": "complete", "from": frm, "magic": int(m.group(1)) if m else -1}

    def leftovers(self):
        if not os.path.isdir(self.moddir):
            return []
        return sorted(f for f in os.listdir(self.moddir) if f != "t.html.py")

    # ---- history steps
    def modify(self, mt):
        self.ver += 1
        self._write_src(mt)
        return {"ev": "modify", "mt": mt}

    def tick(self):
        self.now += 1
        self.sub = 0
        return {"ev": "tick"}

    def delmod(self):
        if not os.path.exists(self.modpath):
            return None
        os.remove(self.modpath)
        return {"ev": "delmod"}

    def oldgen(self, newer=False):
        if not os.path.exists(self.modpath):
            return None
        st = os.stat(self.modpath)
        with open(self.modpath) as f:
            txt = f.read()
        m = MAGIC_RE.search(txt)
        if not m:
            return None
        import mako.codegen as cg
        if int(m.group(1)) != cg.MAGIC_NUMBER:
            return None
        txt = txt[:m.start(1)] + str(int(m.group(1)) + (1 if newer else -1)) + txt[m.end(1):]
        with open(self.modpath, "w") as f:
            f.write(txt)
        os.utime(self.modpath, (OLD, st.st_mtime))
        return {"ev": "oldgen", "newer": bool(newer)}

    # ---- constructions
    def begin(self, p):
        c = self.resting.pop(p, None)
        if c is not None:
            c.again(self.now)
            if c.dead:
                raise MachineryError("resting child %s died: %s" % (p, c.final))
        else:
            c = Child(self.root, self.now, self.use_writer, self.entry)
        self.children[p] = c
        evs = [{"ev": "begin", "p": p}]
        if c.at is None:          # finished without a single file-system call
            evs += self._finish(p)
        return evs

    def _finish(self, p):
        c = self.children[p]
        out = []
        if not c.dead and c.at is None and c.final is not None:
            f = c.final
            if f["final"] == "done":
                out.append({"ev": "done", "p": p, "rendered": f["rendered"]})
            else:
                out.append({"ev": "exc", "p": p, "type": f.get("type"), "msg": f.get("msg")})
        if c.dead or c.at is None:
            del self.children[p]
            if self.reuse and not c.dead and c.p.poll() is None:
                self.resting[p] = c
            else:
                c.kill()
        return out

    def step(self, p, cmd="go"):
        """grant one interposed call of child p; returns list of events (with p)"""
        c = self.children[p]
        out = []
        if c.at is None:
            raise MachineryError("child %s has no pending point" % p)
        at = c.at
        if cmd in ("die", "mid"):
            c.grant(cmd)
            out.append({"ev": "crash", "p": p, "mid": cmd == "mid", "at": at})
        else:
            ev = c.grant(cmd)
            ev["p"] = p
            if ev.get("ev") == "mkstemp" and "name" in ev:
                # a private temp file: created exclusively, or at least under a name no other process of this history uses
                others = set().union(*[v for q, v in self.tmpnames.items() if q != p]) if self.tmpnames else set()
                ev["private"] = bool(ev.get("excl")) or ev["name"] not in others
                self.tmpnames.setdefault(p, set()).add(ev["name"])
            if ev.get("ev") in ("move", "writer") and os.path.exists(self.modpath):
                # the file was published in the simulated present
                os.utime(self.modpath, (OLD, BASE + self.now + self.frac()))
            out.append(ev)
            if cmd == "go-die":
                out.append({"ev": "crash", "p": p, "mid": False, "at": at + ":after"})
        return out + self._finish(p)

    def active(self):
        return sorted(self.children)


def magic_number():
    import mako.codegen as cg
    return cg.MAGIC_NUMBER


# --------------------------------------------------------------------------- V
def run_history(args):
    """One seeded history; returns list of events (each with `post`)."""
    seed, steps, maxprocs, use_writer, crash_prob, base, plan = args
    rng = random.Random(seed)
    entry = ENTRIES[(seed // 2) % 4] if plan is None else (plan[2] if len(plan) > 2 else "moddir")
    symlink = (seed % 3 == 0) if plan is None else (sum(map(ord, repr(plan))) % 3 == 0)
    w = World(base, use_writer, reuse=bool(seed % 2) or (plan is not None and plan[0] == "same"), entry=entry, symlink=symlink)
    events = []

    def add(evs):
        for e in evs if isinstance(evs, list) else [evs]:
            if e is None:
                continue
            e["post"] = w.post()
            events.append(e)
    try:
        if plan is not None and plan[0] == "same":
            # ONE long-lived process constructs the Template, the world changes, it constructs it again (the earlier
            # Template objects are still alive in that process): what was decided before must not be remembered
            add(w.begin(1))
            while 1 in w.children:
                add(w.step(1))
            for ops in plan[1]:
                for op in ops:
                    add(apply_env(w, op))
                add(w.begin(1))
                while 1 in w.children:
                    add(w.step(1))
            return events
        if plan is not None:
            # exhaustive single-writer crash plan: (k, mode) = die at the k-th call of the first construction
            k, mode = plan[:2]
            add(w.begin(1))
            n = 0
            while 1 in w.children:
                n += 1
                cmd = "go"
                if n == k:
                    cmd = {"before": "die", "after": "go-die", "mid": "mid", "fail": "fail", "mid-fail": "mid-fail"}[mode]
                    if cmd == "mid" and w.children[1].at != "write":
                        cmd = "die"
                    if cmd in ("fail", "mid-fail") and w.children[1].at not in WRITING:
                        cmd = "go"        # only the calls that write the module are made to fail
                    if cmd == "mid-fail" and w.children[1].at != "write":
                        cmd = "fail"
                add(w.step(1, cmd))
            # a later construction must succeed and render the current source
            add(w.begin(2))
            while 2 in w.children:
                add(w.step(2))
            return events
        for _ in range(steps):
            if not w.active():
                op = rng.choice(["modify", "modify", "tick", "tick", "delmod", "oldgen", "construct", "construct", "construct", "construct"])
                if op == "modify":
                    add(w.modify(rng.choice([w.now, w.now, max(0, w.now - 1), 0])))
                elif op == "tick":
                    add(w.tick())
                elif op == "delmod":
                    add(w.delmod())
                elif op == "oldgen":
                    add(w.oldgen(rng.random() < 0.5))
                else:
                    for p in range(1, rng.randint(1, maxprocs) + 1):
                        add(w.begin(p))
            else:
                p = rng.choice(w.active())
                cmd = "go"
                if rng.random() < crash_prob:
                    cmd = rng.choice(["die", "go-die", "mid", "fail", "mid-fail"])
                    if cmd == "mid" and w.children[p].at != "write":
                        cmd = "die"
                    if cmd in ("fail", "mid-fail") and w.children[p].at not in WRITING:
                        cmd = "die"
                    if cmd == "mid-fail" and w.children[p].at != "write":
                        cmd = "fail"
                add(w.step(p, cmd))
        # run every construction still active to completion, then one more that must succeed
        while w.active():
            add(w.step(rng.choice(w.active())))
        add(w.begin(1))
        while w.active():
            add(w.step(1))
        return events
    finally:
        w.close()


WRITING = ("mkstemp", "write", "close", "move")     # the calls that may be made to FAIL (OSError)
ENV_OPS = ["modify-now", "modify-prev", "modify-0", "tick", "delmod", "oldgen-older", "oldgen-newer"]


def apply_env(w, op):
    if op == "modify-now":
        return w.modify(w.now)
    if op == "modify-prev":
        return w.modify(max(0, w.now - 1))
    if op == "modify-0":
        return w.modify(0)
    if op == "tick":
        return w.tick()
    if op == "delmod":
        return w.delmod()
    if op.startswith("oldgen"):
        return w.oldgen(op.endswith("newer"))
    raise MachineryError(op)


def trace_cfg(nprocs, use_writer):
    return ("CONSTANTS Procs = {%s}  MaxVer = 100000  MaxNow = 100000  Magic = %d  UseWriter = %s  Failures = TRUE\n"
            "SPECIFICATION TSpec\nCHECK_DEADLOCK FALSE\n"
            % (", ".join(str(i) for i in range(1, nprocs + 1)), magic_number(), "TRUE" if use_writer else "FALSE"))


def mc_cfg(nprocs, maxver, maxnow, use_writer, failures=True):
    return ("CONSTANTS Procs = {%s}  MaxVer = %d  MaxNow = %d  Magic = %d  UseWriter = %s  Failures = %s\n" % (
        ", ".join(str(i) for i in range(1, nprocs + 1)), maxver, maxnow, magic_number(), "TRUE" if use_writer else "FALSE",
        "TRUE" if failures else "FALSE")
        + "SPECIFICATION Spec\nINVARIANT ModuleIntegrity\nINVARIANT LaterLoadSucceeds\nINVARIANT NeverRaises\nINVARIANT RewriteWhenDue\n"
          "INVARIANT ReuseOtherwise\nINVARIANT RendersCurrent\nINVARIANT WriterExactlyWhenDue\nPROPERTY PublishedIsCurrentGen\nCHECK_DEADLOCK FALSE\n")


# --------------------------------------------------------------------------- R
ACT_POINT = {"CheckDir": "direxists", "MkDir": "mkdir", "StatSrc": "statsrc", "Exists": "exists", "StatMod": "statmod", "ReadSrc": "readsrc", "Mkstemp": "mkstemp",
             "Write": "write", "Close": "close", "Move": "move", "MoveFrom": "move", "ReadSrcFrom": "readsrc", "LoadFrom": "load", "CallWriter": "writer", "Load": "load"}


def replay_behaviour(args):
    steps, use_writer, base, reuse, entry = args
    w = World(base, use_writer, reuse=reuse, entry=entry)
    try:
        prev = None
        for idx, (act, st) in enumerate(steps):
            a = st.get("$args") or []
            last = st["last"]
            mm = None
            if act == "Init":
                prev = st
                continue
            if act == "Modify":
                w.modify(last["mt"])
            elif act == "Tick":
                w.tick()
            elif act == "DeleteMod":
                if w.delmod() is None:
                    mm = "delmod: no module file on disk"
            elif act in ("OldGen", "OtherGen"):
                if w.oldgen(bool(last.get("newer"))) is None:
                    mm = "oldgen: no current-generation module file on disk"
            elif act == "Begin":
                w.begin(a[0])
            elif act == "Crash":
                p = a[0]
                c = w.children.get(p)
                if c is None:
                    if _get(prev["pc"], p) not in ("Done", "Failed"):     # the real process has already finished / raised
                        mm = "crash: process %s not running" % p
                else:
                    mid = _get(prev["pc"], p) == "Write" and _get(st["tmp"], p)["bytes"] == 1
                    w.step(p, "mid" if mid else "die")
            elif act == "Fail":
                p = a[0]
                c = w.children.get(p)
                want = ACT_POINT[_get(prev["pc"], p)]
                if c is None or c.at != want:
                    mm = "process %s is at %r, spec expects a failing %s" % (p, c.at if c else None, want)
                else:
                    evs = w.step(p, "mid-fail" if last.get("mid") else "fail")
                    fin = [x for x in evs if x["ev"] in ("done", "exc")]
                    if not fin or fin[0]["ev"] != "exc":
                        mm = "after a failing %s the constructor did not raise: %s" % (want, evs)
            elif act == "Raise":
                pass   # the exception was consumed together with the failing call
            elif act == "Done":
                pass   # the final event was consumed together with the last granted call
            elif act == "CheckDir" and st.get("dir") is True and w.children.get(a[0]) is not None \
                    and w.children[a[0]].at not in ("direxists", None):
                pass    # the code does not re-check the directory it has just made: not part of the property
            elif act in ACT_POINT:
                p = a[0]
                c = w.children.get(p)
                if c is None or c.at != ACT_POINT[act]:
                    mm = "process %s is at %r, spec expects %s" % (p, c.at if c else None, ACT_POINT[act])
                else:
                    evs = w.step(p)
                    e = evs[0]
                    exp = {k: v for k, v in last.items() if k not in ("ev", "p")}
                    for k, v in exp.items():
                        if k == "stale":
                            continue
                        if e.get(k) != v:
                            mm = "%s: field %s expected %r observed %r" % (act, k, v, e.get(k))
                    if "error" in e:
                        mm = "%s: call failed with %s" % (act, e["error"])
                    fin = [x for x in evs if x["ev"] in ("done", "exc")]
                    if fin:
                        w._final = (p, fin[0])
                    if act in ("Load", "LoadFrom") and not fin and _get(st["pc"], p) == "Done":
                        mm = "Load: construction did not finish after the load"
                    if fin and fin[0]["ev"] == "exc":
                        mm = "construction raised %s: %s" % (fin[0].get("type"), fin[0].get("msg"))
                    if fin and fin[0]["ev"] == "done" and _get(st["pc"], p) == "Done":
                        expv = _get(st["loc"], p)["loaded"]["from"]
                        if fin[0]["rendered"] != expv:
                            mm = "rendered v%s, spec expects v%s" % (fin[0]["rendered"], expv)
            elif act == "LoadFail":
                mm = "spec behaviour contains LoadFail"
            else:
                raise MachineryError("unknown action %s" % act)
            if mm is None:
                post = w.post()
                m = st["mod"]
                if post["st"] != m["st"] or (m["st"] == "complete" and (post["from"] != m["from"] or post["magic"] != m["magic"])):
                    mm = "module path on disk %r, spec %r" % (post, m)
            if mm:
                return {"step": idx, "action": act, "args": a, "mismatch": mm}
            prev = st
        return None
    finally:
        w.close()


def _get(f, p):
    if isinstance(f, list):
        return f[p - 1]
    return f[p] if p in f else f[str(p)]


def check(run):
    thorough = run.thorough
    pool = cf.ThreadPoolExecutor(max_workers=core.NCPU)
    # ------------------------------------------------------------------ 1. model checking
    mcs = [("mc-2p", 2, 2, 2, False), ("mc-2p-writer", 2, 2, 2, True)]
    if thorough:
        # three processes: the interleavings are the point (time and versions are explored by the two-process instances)
        mcs = [("mc-2p", 2, 3, 3, False), ("mc-2p-writer", 2, 3, 3, True), ("mc-3p", 3, 2, 1, False)]
    acts = {}
    for name, np_, mv, mn, uw in mcs:
        # three processes: crashes at every label, but no failing calls (those are exhaustive for two processes)
        res = run.tlc("ModuleFile", mc_cfg(np_, mv, mn, uw, failures=np_ < 3), name=name, coverage=np_ < 3, timeout=3000, heap="12g" if thorough else None)
        if res.violated:
            run.spec_violation(res)
        for a, (d, g) in res.coverage.items():
            acts[a] = acts.get(a, 0) + g
    for a in ("Modify", "Tick", "DeleteMod", "OtherGen", "Begin", "CheckDir", "MkDir", "StatMod", "ReadSrcFrom", "Mkstemp", "Write", "Close", "MoveFrom", "CallWriter", "LoadFrom", "Done", "Crash", "Fail", "Raise"):
        if not acts.get(a):
            raise MachineryError("vacuous model checking: action %s never taken (%s)" % (a, acts))
    run.extra["action_coverage"] = acts

    # ------------------------------------------------------------------ 2. V
    jobs = []
    # exhaustive crash points of the single-writer protocol (first construction: 8 calls; k beyond the end = no crash)
    for uw in (False, True):
        for k in range(1, 14):
            for mode in ("before", "after", "mid") + (("fail", "mid-fail") if not uw else ()):
                jobs.append(("plan", 2, uw, (0, 0, 2, uw, 0.0, run.scratch, (k, mode))))
                # the other entry points to the same module path (module_filename=, TemplateLookup with module_directory /
                # modulename_callable): every crash point in the thorough tier, a rotating third of them otherwise
                for ei, entry in enumerate(ENTRIES[1:]):
                    if thorough or (k + ei) % 3 == {"before": 0, "after": 1, "mid": 2, "fail": 0, "mid-fail": 1}[mode]:
                        jobs.append(("plan", 2, uw, (0, 0, 2, uw, 0.0, run.scratch, (k, mode, entry))))
    # one long-lived process, every sequence of <= 2 history steps between its constructions (and a third construction)
    gaps = [(a,) for a in ENV_OPS] + [(a, b) for a in ENV_OPS for b in ENV_OPS]
    third = [(), ("delmod",), ("oldgen-newer",), ("tick", "modify-now")]
    n_same = 0
    for uw in (False, True):
        for gi, g in enumerate(gaps):
            for ti, t3 in enumerate(third):
                if thorough or ti == gi % len(third):
                    jobs.append(("same", 2, uw, (0, 0, 2, uw, 0.0, run.scratch, ("same", [g, t3], ENTRIES[gi % 4]))))
                    n_same += 1
    run.extra["same_process_histories"] = n_same
    nh = 40 if not thorough else 600
    for i in range(nh):
        seed = run.rng.randrange(10 ** 9)
        uw = i % 4 == 3
        maxp = 2 if i % 3 else 3
        if thorough and i % 10 == 9:
            maxp = 8
        jobs.append(("hist", maxp, uw, (seed, 40 if not thorough else 60, maxp, uw, 0.12, run.scratch, None)))
    results = list(pool.map(run_history, [j[3] for j in jobs]))
    groups = {}
    crash_points = set()
    fail_points = set()
    for tid, ((kind, maxp, uw, _), evs) in enumerate(zip(jobs, results)):
        np_ = max([maxp, 2] + [e.get("p", 0) for e in evs])
        groups.setdefault((np_, uw), []).append({"id": tid + 1, "events": evs, "kind": kind})
        for e in evs:
            if e["ev"] == "crash":
                crash_points.add((e.get("at"), e.get("mid")))
            if e["ev"] == "fail":
                fail_points.add((e.get("at"), e.get("mid")))
    run.extra["distinct_failure_points"] = sorted("%s%s" % (a, ":mid" if m else "") for a, m in fail_points)
    # judged at the end: a changed write protocol (fewer interposable calls) must end in its violations, not in exit 2
    vacuous_failures = len(fail_points) < 5
    run.extra["distinct_crash_points"] = sorted("%s%s" % (a, ":mid" if m else "") for a, m in crash_points)
    first = True
    for (np_, uw), traces in sorted(groups.items()):
        ncs = []
        for t in traces:
            # negative controls: a module path observed half-written, and a dropped event
            idx = [i for i, e in enumerate(t["events"]) if e["ev"] == "move"]
            if idx and not ncs:
                bad = copy.deepcopy(t)
                bad["id"] = 10 ** 6 + 1
                bad["events"][idx[0]]["post"] = {"st": "partial", "from": -1, "magic": -1}
                ncs.append(bad)
                bad2 = copy.deepcopy(t)
                bad2["id"] = 10 ** 6 + 2
                del bad2["events"][idx[0]]
                ncs.append(bad2)
            idx = [i for i, e in enumerate(t["events"]) if e["ev"] == "done"]
            if idx and len(ncs) < 3:
                bad3 = copy.deepcopy(t)
                bad3["id"] = 10 ** 6 + 3
                bad3["events"][idx[0]]["rendered"] += 1
                ncs.append(bad3)
        payload = [{"id": t["id"], "events": t["events"]} for t in traces + ncs]
        verdicts = run.validate_traces("Trace_ModuleFile", trace_cfg(np_, uw), payload, name="trace-%dp-%s" % (np_, "w" if uw else "n"))
        run.traces -= len(ncs)
        for nc in ncs:
            run.negative_control(not verdicts[nc["id"]]["ok"], "Trace_ModuleFile accepted a corrupted trace (%d)" % nc["id"])
        for t in traces:
            v = verdicts[t["id"]]
            run.transitions += len(t["events"])
            if not v["ok"]:
                i = v["i"]
                e = t["events"][i - 1] if i else None
                clause = v["clause"]
                sig = "trace:%s:%s" % (e["ev"] if e else "?", clause.split("(")[0])
                run.violation(sig, "event trace of real constructions not explained by ModuleFile.tla at event %d (%s): %s" % (i, clause, e),
                              {"processes": np_, "module_writer": uw, "events": t["events"][: i + 2], "verdict": v})
        if first and traces:
            run.sample({"direction": "V", "processes": np_, "events": [{k: x for k, x in e.items() if k != "post"} for e in traces[0]["events"][:14]]})
            first = False

    # ------------------------------------------------------------------ 3. R
    sims = [("sim-2p", 2, False, 24, 60), ("sim-2p-w", 2, True, 12, 60), ("sim-3p", 3, False, 12, 80)]
    if thorough:
        sims = [(n, p, w_, num * 8, d) for (n, p, w_, num, d) in sims]
    replayed = 0
    for name, np_, uw, num, depth in sims:
        simdir = run.subdir("simtr-" + name)
        cfg = mc_cfg(np_, 40, 8, uw)
        run.tlc("ModuleFile", cfg, name=name, workers=1, simulate="file=%s/tr,num=%d" % (simdir, num), depth=depth, timeout=900, count=False)
        files = sorted(os.listdir(simdir))
        if len(files) < num:
            raise MachineryError("simulate produced %d of %d behaviours" % (len(files), num))
        behaviours = [core.parse_simulate_file(os.path.join(simdir, fn)) for fn in files]
        outs = list(pool.map(replay_behaviour, [(b, uw, run.scratch, bi % 2 == 1, ENTRIES[(bi // 2) % 2]) for bi, b in enumerate(behaviours)]))
        for b, mm in zip(behaviours, outs):
            replayed += 1
            run.transitions += len(b)
            if mm:
                hist = [[a, s.get("$args")] for a, s in b[: mm["step"] + 1]]
                run.violation("replay:%s" % mm["action"], "real construction disagrees with the spec behaviour at step %d: %s" % (mm["step"], mm["mismatch"]),
                              {"processes": np_, "module_writer": uw, "schedule": hist, "mismatch": mm})
                break
        if name == "sim-2p" and behaviours:
            run.sample({"direction": "R", "schedule": [[a, s.get("$args")] for a, s in behaviours[0][:20]]})
    run.traces += replayed
    run.extra["behaviours_replayed"] = replayed
    pool.shutdown()
    if vacuous_failures and not run.violations:
        raise MachineryError("failure injection did not reach every writing call: %s" % sorted(fail_points))
    run.assumptions += [
        "file-system calls are observed by interposing os.stat, os.path.exists, os.write, os.close, os.rename/replace, shutil.move, "
        "tempfile.mkstemp, builtins.open, os.unlink in the child process; calls made in other ways are not scheduling/crash points "
        "(their effect on the module path is still seen by the projection after the next event)",
        "a killed process is os._exit in the child between or inside interposed calls; OS/power failure (no fsync) is outside the property",
        "module file mtimes are set to the simulated present by the parent right after the publishing call",
    ]
    return {"rule": "TLC exhaustive on ModuleFile.tla (2-3 processes, every crash point); every crash point of the real single-writer "
                    "protocol (k-th call x before/after/mid) and seeded concurrent histories (1-8 child processes scheduled call by call) "
                    "validated against Trace_ModuleFile.tla; TLC -simulate behaviours replayed as schedules on real child processes.",
            "exhaustive": False}
