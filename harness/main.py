"""Dispatcher: bin/check <Cxx> ... -> harness.<cxx>.check(run)."""
import importlib
import sys

from . import core


def main():
    if len(sys.argv) < 2:
        print("usage: check <Cxx> [--tier quick|thorough] [--seed N]")
        return 2
    prop = sys.argv[1].upper()
    try:
        mod = importlib.import_module("harness." + prop.lower())
    except ImportError as e:
        print("MACHINERY-FAILURE property=%s: no check module (%s)" % (prop, e))
        return 2
    return core.main_wrapper(prop, mod.check, sys.argv[2:])


if __name__ == "__main__":
    sys.exit(main())
