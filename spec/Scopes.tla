------------------------------- MODULE Scopes -------------------------------
(***************************************************************************)
(* Name resolution in a Mako template (property C04, first sentence).      *)
(*                                                                         *)
(* One name is bound at a set S of binding sites of a fixed template       *)
(* skeleton and read at one read site r.  The machine below walks the      *)
(* chain the GENERATED MODULE walks when the read executes, one action per *)
(* hop:                                                                    *)
(*                                                                         *)
(*   Closure   Python's own local/closure rule over the generated          *)
(*             functions enclosing the read (render_body / render_<def> /  *)
(*             the inline closures written by codegen.write_inline_def and *)
(*             visitCallTag), innermost first; inside one function the     *)
(*             latest assignment in program order is the current value     *)
(*   Module    a <%! %> name is a module global of the generated module    *)
(*             (codegen: module identifiers are `declared`, never hoisted) *)
(*   Import    _import_ns.get(name, ...)   (write_variable_declares)       *)
(*   Context   context.get(name) / context[name]; for a top-level def      *)
(*             called BY NAME from the body the context is                 *)
(*             context._locals(__M_locals): the body's <%page> arguments   *)
(*             and the current values of its <% %> assignments lie over    *)
(*             the render arguments (write_def_decl, visitCode,            *)
(*             runtime.Context._locals)                                    *)
(*   Builtin   builtins.__dict__ fallback of Context.get/__getitem__       *)
(*   Undefined the UNDEFINED singleton, or NameError under                 *)
(*             strict_undefined                                            *)
(*                                                                         *)
(* The property's order is stated a second time, independently, as the     *)
(* priority table Order(r) of DESIGN.md section 3 C04; the invariant       *)
(* ResolveTotalAndOrdered says that the walk ends in exactly the value the *)
(* table gives, for every (S, r, strict).  Every terminal state prints one *)
(* JSON line {id, S, r, strict, expect, hops}; the harness turns each into *)
(* a real template and compares what the read site sees.                   *)
(*                                                                         *)
(* "nowhere" of the property's list of ten binding sites is S = {}; the    *)
(* tenth site here is LATE (an assignment after the read).                 *)
(***************************************************************************)
EXTENDS Naturals, Sequences, FiniteSets, TLC, Json
CONSTANTS MaxSites,      \* |S| <= MaxSites
          ClassSites,    \* every builtin name class is explored for |S| <= ClassSites, one class beyond
          ReadSites      \* read sites explored (subset of AllReadSites)

\* LATE: a <% %> assignment in the body that stands AFTER the read: by Python's rule the name is
\* then a local of render_body for the whole function, so an earlier read of it is an
\* UnboundLocalError unless an earlier binding of the same local exists
\* (write_variable_declares: "to_write.difference(identifiers.locally_declared)")
Sites == {"CTX", "PAGE", "BODY", "DEFARG", "ENCL", "LOOP", "MOD", "IMP", "BUILTIN", "LATE"}
\* further expression positions of the page body: the args= and file= expressions of <%include>, the expr=
\* of <%call>, the filter= of <%text> (all evaluated in render_body itself) and of an anonymous <%block>
BodyLevel == {"R_BODY", "R_ANON", "R_CALLBODY", "R_CTL", "R_ATTR", "R_FILTER", "R_FILTERARG",
              "R_INCARGS", "R_INCFILE", "R_CALLEXPR", "R_TEXTFILTER", "R_BLOCKFILTER"}
\* The call PATH of a top-level def called by name is part of the read site: where in the page body the
\* call is written decides which generated function holds the def's stub (write_def_decl), and every
\* such stub has to hand over context._locals(__M_locals).  R_TOPDEF_BYNAME: the call stands in the body
\* text; _CTL: in a control line; _ANON: in an anonymous block; _CALLBODY / _CALLBODYARGS: in the body of
\* a <%call> tag without / with args= (the def being referenced nowhere else); _NSCALL: in the body of a
\* <%self:def> tag; _VIADEF: another top-level def, itself called by name from the body, calls it (the
\* callee then receives the caller's context, which already carries the locals); R_TOPDEF_VIADEF_SELF:
\* the intermediate def was reached through self., so there are no body locals anywhere on the path.
\* R_DEFFILTER: the name stands in the filter= expression of the def (evaluated inside the def's function).
ByNamePaths == {"R_DEFFILTER", "R_TOPDEF_BYNAME", "R_TOPDEF_BYNAME_CTL", "R_TOPDEF_BYNAME_ANON", "R_TOPDEF_BYNAME_CALLBODY",
                "R_TOPDEF_BYNAME_CALLBODYARGS", "R_TOPDEF_BYNAME_NSCALL", "R_TOPDEF_BYNAME_VIADEF"}
SelfPaths == {"R_TOPDEF_SELF", "R_TOPDEF_VIADEF_SELF"}
NestedByName == {"R_NESTED", "R_NESTED_CALLBODY"}
DefReads == ByNamePaths \cup SelfPaths \cup NestedByName \cup {"R_NESTED_SELF"}
AllReadSites == BodyLevel \cup DefReads \cup {"R_NAMED"}
DirectBody == {"R_BODY", "R_CTL", "R_ATTR", "R_FILTER", "R_FILTERARG",
               "R_INCARGS", "R_INCFILE", "R_CALLEXPR", "R_TEXTFILTER"}     \* the read is in render_body itself
ByName == ByNamePaths \cup NestedByName      \* the enclosing top-level def is called by name from the body

\* which skeletons exist: a def argument needs a def, an enclosing-def local needs a nested def,
\* a loop target encloses a read in the body.  (A loop target around a by-name def call is not
\* generated: the property speaks of <%page> arguments and <% %> assignments only.)
Applicable(S, r) ==
  /\ ("DEFARG" \in S => r \in DefReads)
  /\ ("ENCL" \in S => r \in NestedByName \cup {"R_NESTED_SELF"})
  /\ ("LOOP" \in S => r \in BodyLevel)
  /\ ("LATE" \in S => r \in DirectBody)      \* reads from closures / defs below a late assignment are not generated

\* generated Python functions around the read, innermost first; in each, the sites that assign
\* the function's local variable, LATEST assignment first (the read comes after all of them)
BodyFrame == <<"LOOP", "BODY", "PAGE">>
Frames(r) ==
  CASE r \in DirectBody -> <<BodyFrame>>
    [] r \in {"R_ANON", "R_CALLBODY", "R_BLOCKFILTER"} -> << <<>>, BodyFrame >>     \* closure inside render_body
    [] r \in ByNamePaths \cup SelfPaths -> << <<"DEFARG">> >>
    [] r \in NestedByName \cup {"R_NESTED_SELF"} -> << <<>>, <<"ENCL", "DEFARG">> >>
    [] r = "R_NAMED" -> << <<>> >>
\* what context.get sees at r, topmost layer first
CtxLayers(r) == IF r \in ByName THEN <<"BODY", "PAGE", "CTX">> ELSE <<"CTX">>

\* Which builtin the name is, when the BUILTIN site is active: the property says "a Python builtin", i.e.
\* whatever the builtins module holds WHEN THE TEMPLATE RENDERS -- an ordinary public function (len), a
\* name that is commonly shadowed (id, format, type), a dunder builtin (__import__), a name installed into
\* the builtins module at run time before the render (builtins._ of gettext.install()), an exception
\* class.  The class changes nothing in the walk: HopBuiltin resolves for every class alike.
BuiltinClasses == {"public", "shadowable", "dunder", "runtime", "exception"}
\* Which module-level source binds the name when the MOD site is active.  The generated module has a LIST of
\* such sources, written in this order: the statements of the imports= option (Template / TemplateLookup), then
\* the <%! %> blocks of the template in source order; the later binding is the current one.  A name bound by any
\* of them is a module global (codegen.write_toplevel: declared identifiers of ALL imports= statements and of
\* every module block).  As with the builtin class, the source changes nothing in the walk.
\*   block            the only <%! %> block           block1of2 / block2of2   first / second of two blocks
\*   block_twice      both blocks bind it (the second is current)
\*   imp1of1          the only imports= statement     imp1of2 / imp2of2 / imp2of3   its place in the list
\*   imp_multi        second name of `from m import a as u, b as NAME`
\*   imp_dotted_as    `import pkg.sub as NAME`        imp_plain   `import NAME`
\*   imp_and_block    an imports= statement and a <%! %> block bind it (the block is current)
ModSources == {"block", "block1of2", "block2of2", "block_twice", "imp1of1", "imp1of2", "imp2of2", "imp2of3",
               "imp_multi", "imp_dotted_as", "imp_plain", "imp_and_block"}
PairSources == {"block", "block2of2", "imp1of2", "imp2of3", "imp_multi", "imp_and_block"}
ModuleValued == {"imp_dotted_as", "imp_plain"}       \* the name is bound to a module object (not callable)
VARIABLES S, r, strict, bclass, msrc, pc, fi, res, hops
vars == <<S, r, strict, bclass, msrc, pc, fi, res, hops>>

\* render_body receives the page argument from the render arguments when they have the name
Value(site) == IF site = "PAGE" /\ "CTX" \in S THEN "CTX" ELSE site
Active(seq) == {i \in 1..Len(seq) : seq[i] \in S}
First(seq) == seq[CHOOSE i \in Active(seq) : \A j \in Active(seq) : i <= j]

Init == /\ S \in {T \in SUBSET Sites : Cardinality(T) <= MaxSites}
        /\ r \in ReadSites /\ Applicable(S, r)
        /\ strict \in BOOLEAN
        /\ bclass \in (IF "BUILTIN" \notin S THEN {"none"}
                        ELSE IF Cardinality(S) <= ClassSites THEN BuiltinClasses ELSE {"public"})
        \* every source for the smaller sets, a representative half at |S| = ClassSites, one beyond
        /\ msrc \in (IF "MOD" \notin S THEN {"none"}
                      ELSE IF Cardinality(S) < ClassSites THEN ModSources
                      ELSE IF Cardinality(S) = ClassSites THEN PairSources ELSE {"block"})
        /\ (msrc = "imp_plain" => bclass = "none")                 \* `import NAME` needs a module of that name
        /\ (msrc \in ModuleValued => r # "R_FILTER")               \* a module object cannot be applied as a filter
        /\ pc = "closure" /\ fi = 1 /\ res = "" /\ hops = <<>>

Resolve(v, hop) == /\ res' = v /\ pc' = "done" /\ hops' = Append(hops, hop) /\ UNCHANGED <<S, r, strict, bclass, msrc, fi>>
Pass(next, hop) == /\ pc' = next /\ hops' = Append(hops, hop) /\ UNCHANGED <<S, r, strict, bclass, msrc, fi, res>>

HopClosure ==
  /\ pc = "closure"
  /\ LET f == Frames(r)[fi] IN
     IF Active(f) # {} THEN Resolve(Value(First(f)), "closure")
     ELSE IF "LATE" \in S /\ f = BodyFrame /\ fi = 1 THEN Resolve("UnboundLocalError", "closure")
     ELSE IF fi < Len(Frames(r))
          THEN /\ fi' = fi + 1 /\ hops' = Append(hops, "closure") /\ UNCHANGED <<S, r, strict, bclass, msrc, pc, res>>
          ELSE Pass("module", "closure")
HopModule == /\ pc = "module"
             /\ IF "MOD" \in S THEN Resolve("MOD", "module") ELSE Pass("import", "module")
HopImport == /\ pc = "import"
             /\ IF "IMP" \in S THEN Resolve("IMP", "import") ELSE Pass("context", "import")
HopContext == /\ pc = "context"
              /\ IF Active(CtxLayers(r)) # {} THEN Resolve(Value(First(CtxLayers(r))), "context")
                 ELSE Pass("builtin", "context")
HopBuiltin == /\ pc = "builtin"
              /\ IF "BUILTIN" \in S THEN Resolve("BUILTIN", "builtin") ELSE Pass("undefined", "builtin")
HopUndefined == /\ pc = "undefined"
                /\ Resolve(IF strict THEN "NameError" ELSE "UNDEFINED", "undefined")
Case == [S |-> S, r |-> r, strict |-> strict, bclass |-> bclass, msrc |-> msrc, expect |-> res, hops |-> hops]
Done == /\ pc = "done" /\ pc' = "printed"
        /\ PrintT(ToJson(Case))
        /\ UNCHANGED <<S, r, strict, bclass, msrc, fi, res, hops>>
Next == HopClosure \/ HopModule \/ HopImport \/ HopContext \/ HopBuiltin \/ HopUndefined \/ Done
Spec == Init /\ [][Next]_vars

(* ------------------------------------------------------------------------ *)
(* The property, stated independently of the walk: first active binding in  *)
(* the order of the read site wins.                                         *)
Order(rs) ==
  CASE rs \in BodyLevel -> <<"LOOP", "BODY", "PAGE", "MOD", "IMP", "CTX", "BUILTIN">>
    [] rs \in ByNamePaths -> <<"DEFARG", "MOD", "IMP", "BODY", "PAGE", "CTX", "BUILTIN">>    \* whatever the call path
    [] rs \in SelfPaths -> <<"DEFARG", "MOD", "IMP", "CTX", "BUILTIN">>
    [] rs = "R_NAMED" -> <<"MOD", "IMP", "CTX", "BUILTIN">>
    [] rs \in NestedByName -> <<"ENCL", "DEFARG", "MOD", "IMP", "BODY", "PAGE", "CTX", "BUILTIN">>
    [] rs = "R_NESTED_SELF" -> <<"ENCL", "DEFARG", "MOD", "IMP", "CTX", "BUILTIN">>
Expected == IF r \in DirectBody /\ "LATE" \in S /\ S \cap {"LOOP", "BODY", "PAGE"} = {} THEN "UnboundLocalError"
            ELSE IF Active(Order(r)) = {} THEN (IF strict THEN "NameError" ELSE "UNDEFINED")
            ELSE Value(First(Order(r)))
Tokens == (Sites \ {"LATE"}) \cup {"UNDEFINED", "NameError", "UnboundLocalError"}
ResolveTotalAndOrdered ==
  /\ pc \in {"done", "printed"} => (res = Expected /\ res \in Tokens)
  /\ pc \notin {"done", "printed"} => ENABLED (HopClosure \/ HopModule \/ HopImport \/ HopContext \/ HopBuiltin \/ HopUndefined)
\* scope kinds are what the statement says they are: closure bindings beat module names beat
\* imports beat the context beat builtins, whatever the read site
ClassRank(h) == CASE h = "closure" -> 1 [] h = "module" -> 2 [] h = "import" -> 3 [] h = "context" -> 4
                  [] h = "builtin" -> 5 [] h = "undefined" -> 6
HopsAscending == \A i \in 1..Len(hops) : \A j \in 1..Len(hops) : i < j => ClassRank(hops[i]) <= ClassRank(hops[j])
\* NameError only under strict_undefined and only when nothing binds the name that the read can see
StrictOnlyWhenMissing == (pc \in {"done", "printed"} /\ res = "NameError") => (strict /\ Active(Order(r)) = {})
=============================================================================
