---------------------------- MODULE MC_Inherit ----------------------------
(* Bounded instance of Inherit.tla: every configuration of the four families up to MaxN levels.   *)
(* Emit prints, for every terminal state, the configuration, the templates with their scripts     *)
(* (ops as "op|via|name") and the expected token sequence ("k|n|l|x") as one JSON line;           *)
(* harness/c06.py turns each into real templates, renders and compares.                           *)
EXTENDS Inherit, Json, MC_InheritBounds
NoTrace(t, i) == [f |-> FALSE]
OpStr(o) == o.op \o "|" \o o.via \o "|" \o o.name
TokStr(t) == t.k \o "|" \o t.n \o "|" \o ToString(t.l) \o "|" \o ToString(t.x)
Strs(s, F(_)) == [k \in 1..Len(s) |-> F(s[k])]
PreOf(i, j) == IF j = NONE THEN <<>> ELSE SpelledPre(i, j)
TplOut(i) == T(i) @@ [dir |-> DirOf(i), abs |-> (SpellOf(i) = "abs"), pre1 |-> PreOf(i, T(i).p1), pre2 |-> PreOf(i, T(i).p2)] @@ [body |-> Strs(ScriptOf(i, "body"), OpStr), fs |-> Strs(ScriptOf(i, "f"), OpStr), ps |-> Strs(ScriptOf(i, "probe"), OpStr),
                      bs |-> Strs(ScriptOf(i, "b"), OpStr), cs |-> Strs(ScriptOf(i, "c"), OpStr)]
Emit == ~(phase = "done" /\ PrintT(ToJson([fam |-> cfg.fam, N |-> cfg.N, top |-> cfg.top, entry |-> cfg.entry, sw |-> cfg.sw, pa |-> cfg.pa, mode |-> cfg.mode,
                                            tpl |-> [i \in Ids |-> TplOut(i)], out |-> Strs(out, TokStr)])) /\ FALSE)
=============================================================================
