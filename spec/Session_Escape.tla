------------------------------- MODULE Session_Escape -------------------------------
(***************************************************************************)
(* History dimension of property C10: the filters and the codec error      *)
(* handler are used many times in ONE process (renders with various        *)
(* output_encoding / encoding_errors, direct str.encode calls, filter      *)
(* applications), and process-global state (the codec error registry, the  *)
(* entity tables of mako.filters, anything memoised in mako.util /         *)
(* mako.filters) must not make a later result depend on earlier            *)
(* operations.                                                             *)
(*                                                                         *)
(* A session is a sequence of operations; `proc` is the process-global     *)
(* state the operations read (the registered error handlers and the        *)
(* escaper's table); no operation of the design writes it.  Every          *)
(* operation's result is Result(op, proc):                                 *)
(*   render  the text ${x} rendered to bytes with output_encoding=cs,      *)
(*           encoding_errors=mode, through ROUTE r -- Template.render,     *)
(*           render_unicode + manual encode, render_context with a bytes   *)
(*           or str buffer, get_def(..).render / render_unicode (def with   *)
(*           and without arguments, also via TemplateLookup),              *)
(*           ModuleTemplate, a top template that reaches the text through  *)
(*           <%include> / <%inherit> / <%namespace> (the TOP template's    *)
(*           options apply), options given to TemplateLookup or to         *)
(*           Template, string / file / module_directory templates.  The    *)
(*           expected result does not mention the route (RouteIndependent).*)
(*           util.FastEncodingBuffer.getvalue encodes the                  *)
(*           joined output with (cs, mode); strict raises on an            *)
(*           unencodable character, replace -> "?", ignore drops it,       *)
(*           xmlcharrefreplace -> &#DDD; (CPython's handlers, trusted),    *)
(*           htmlentityreplace -> Encode of Escape.tla                     *)
(*   encode  s.encode(cs, "htmlentityreplace")                             *)
(*   filter  h, x, u, entity, unescape (of the entity output), trim,       *)
(*           decode (of the UTF-8 bytes)                                   *)
(* HistoryIndependent: the result of each operation equals its result in   *)
(* a fresh process.  TLC enumerates all sessions up to MaxOps over         *)
(* Ops (operation kinds x SessCharsets x one representative string per     *)
(* class) and exports each with the expected results; harness/c10.py runs  *)
(* every session in ONE fresh process of its own and compares every        *)
(* operation's output.                                                     *)
(***************************************************************************)
EXTENDS MC_Escape
CONSTANTS MaxOps, SessCharsets,
          Routes       \* entry points of a render (names understood by harness/c10_session.py)
VARIABLES sess, res, proc
svars == <<vars, sess, res, proc>>

ErrModes == {"strict", "replace", "ignore", "xmlcharrefreplace", "htmlentityreplace"}
FilterNames == {"h", "x", "u", "entity", "unescape", "trim", "decode"}
Strs == DOMAIN InSessStrings                 \* representative strings, by index
Ops == [k : {"render"}, a : SessCharsets, b : ErrModes, s : Strs, r : Routes]
       \cup [k : {"encode"}, a : SessCharsets, b : {"htmlentityreplace"}, s : Strs, r : {""}]
       \cup [k : {"filter"}, a : FilterNames, b : {""}, s : Strs, r : {""}]

Pristine == [registry |-> {"strict", "replace", "ignore", "xmlcharrefreplace", "htmlentityreplace"}, escaper |-> "html.entities"]
RECURSIVE DecOf(_)
DecOf(n) == IF n < 10 THEN <<Digits[n + 1]>> ELSE DecOf(n \div 10) \o <<Digits[(n % 10) + 1]>>
Raise(t) == <<"?exc:" \o t>>
\* str.encode(cs, mode) as text
EncodeMode(s, cs, mode, p) ==
  IF mode \notin p.registry THEN Raise("LookupError")
  ELSE IF mode = "htmlentityreplace" THEN Encode(s, cs)
  ELSE IF mode = "strict" THEN (IF \E i \in DOMAIN s : ~Encodable(s[i], cs) THEN Raise("UnicodeEncodeError") ELSE s)
  ELSE Concat([i \in DOMAIN s |-> IF Encodable(s[i], cs) THEN <<s[i]>>
                                   ELSE IF mode = "replace" THEN <<"?">>
                                   ELSE IF mode = "ignore" THEN <<>>
                                   ELSE <<"&", "#">> \o DecOf(Sym[s[i]].cp) \o <<";">>])
Arg(op) == IF op.k = "filter" /\ op.a = "unescape" THEN EntEsc(InSessStrings[op.s]) ELSE InSessStrings[op.s]
Result(op, p) ==
  LET s == InSessStrings[op.s] IN
  IF op.k \in {"render", "encode"} THEN EncodeMode(s, op.a, op.b, p)
  ELSE CASE op.a = "h" -> HEsc(s) [] op.a = "x" -> XEsc(s) [] op.a = "u" -> UEsc(s) [] op.a = "entity" -> EntEsc(s)
         [] op.a = "unescape" -> RefDecode(EntEsc(s)).val [] op.a = "trim" -> Trim(s)
         [] op.a = "decode" -> DecodeF([kind |-> "bytes", val |-> s]).val

SInit == Init /\ sess = <<>> /\ res = <<>> /\ proc = Pristine
Do(op) == /\ Len(sess) < MaxOps /\ sess' = Append(sess, op) /\ res' = Append(res, Result(op, proc))
          /\ proc' = proc                      \* no operation writes process-global state
          /\ UNCHANGED vars
SRow == [ops |-> [i \in DOMAIN sess' |-> [k |-> sess'[i].k, a |-> sess'[i].a, b |-> sess'[i].b, s |-> sess'[i].s, r |-> sess'[i].r, arg |-> Arg(sess'[i])]],
         res |-> res']
SNext == \E op \in Ops : Do(op) /\ PrintT(ToJson(SRow))
SSpec == SInit /\ [][SNext]_svars
HistoryIndependent == \A i \in DOMAIN sess : res[i] = Result(sess[i], Pristine)
ProcUntouched == proc = Pristine
\* whatever entry point renders the text, the bytes are the same
RouteIndependent == \A i \in DOMAIN sess : sess[i].k = "render" =>
                       \A r2 \in Routes : Result([sess[i] EXCEPT !.r = r2], Pristine) = res[i]
\* within a session the handler's clause of the property holds for every htmlentityreplace operation
HandlerAlways == \A i \in DOMAIN sess : (sess[i].k \in {"render", "encode"} /\ sess[i].b = "htmlentityreplace")
                                           => res[i] = Encode(InSessStrings[sess[i].s], sess[i].a)
=============================================================================
