---------------------------- MODULE Trace_Cache ----------------------------
(***************************************************************************)
(* Validates histories recorded from real Mako templates with cached       *)
(* sections (harness/c17.py drives mako.template.Template objects sharing  *)
(* one backend and logs one event per operation) against Cache.tla.        *)
(* One initial state per recorded trace; every trace prints exactly one    *)
(* JSON verdict {t, ok, i, clause, findings}.  After every consumed event  *)
(* the property invariants are evaluated: a violation of a "W" form (the   *)
(* property modulo the recorded deviations of the code) or a disagreement  *)
(* with the spec's next state rejects the trace and names the clause; a    *)
(* violation of a strict form only (= one of the recorded deviations was   *)
(* exercised) is collected in `findings` and validation goes on.           *)
(*                                                                         *)
(* Event fields: ev, t, and per ev: c, out, execs, name, key, n, found,    *)
(* res; always calls = sequence of [op, ns, key, kw] with kw a sequence of *)
(* <<name, tagged value>>; hasstore/store = backend content as a sequence  *)
(* of <<ns, key, value tokens>> (recording dict backend only).             *)
(***************************************************************************)
EXTENDS Cache, Json, IOUtils, TLCExt
Traces == JsonDeserialize(IOEnv.TRACE_FILE)
VARIABLES tr, l, verdict, findings
tvars == <<vars, tr, l, verdict, findings>>
Ev == Traces[tr].events
TInit == Init /\ tr \in 1..Len(Traces) /\ pg = Traces[tr].pg /\ l = 1 /\ verdict = "run" /\ findings = {}
SeqToSet(s) == {s[i] : i \in 1..Len(s)}
ExecsSeq(f, n) == [i \in 1..(n + 1) |-> f[i - 1]]
CallsMatch(ec, sc) ==
  /\ Len(ec) = Len(sc)
  /\ \A i \in 1..Len(ec) : /\ ec[i].op = sc[i].op /\ ec[i].ns = sc[i].ns /\ ec[i].key = sc[i].key
                           /\ ToFn(ec[i].kw) = sc[i].kw
StoreSet == UNION {{<<n, k, store[n][k].val>> : k \in DOMAIN store[n]} : n \in NsSet}
\* first failing conjunct of the comparison with the spec's next state, "" if none
Common(e) == IF ~CallsMatch(e.calls, last'.calls) THEN "calls"
             ELSE IF e.hasstore /\ SeqToSet(e.store) # StoreSet' THEN "store"
             ELSE ""
RenderClause(e) == IF e.out # last'.out THEN "out"
                   ELSE IF e.execs # [t \in T |-> ExecsSeq(execs'[t], NSec(t))] THEN "execs"
                   ELSE Common(e)
GetClause(e) == IF e.found # last'.found THEN "found" ELSE IF e.found /\ e.res # last'.res THEN "res" ELSE Common(e)
InvClause == IF ~AtMostOncePerKey' THEN "inv:AtMostOncePerKey"
             ELSE IF ~ExecIffMiss' THEN "inv:ExecIffMiss"
             ELSE IF ~DisabledExecutesAlways' THEN "inv:DisabledExecutesAlways"
             ELSE IF ~ReplayExactW' THEN "inv:ReplayExact"
             ELSE IF ~ArgsPrecedenceW' THEN "inv:ArgsPrecedence"
             ELSE IF ~IsolationW' THEN "inv:Isolation"
             ELSE IF ~NamesOnlyOnMissW' THEN "inv:NamesOnlyOnMiss"
             ELSE ""
Strict == (IF ReplayExact' THEN {} ELSE {"ReplayExact"}) \cup (IF ArgsPrecedence' THEN {} ELSE {"ArgsPrecedence"})
          \cup (IF Isolation' THEN {} ELSE {"Isolation"}) \cup (IF NamesOnlyOnMiss' THEN {} ELSE {"NamesOnlyOnMiss"})
Report(ok, i, clause, fnd) == PrintT(ToJson([t |-> Traces[tr].id, ok |-> ok, i |-> i, clause |-> clause, findings |-> fnd]))
Finish(c0) ==
  LET c == IF c0 # "" THEN c0 ELSE InvClause
      f == findings \cup Strict
  IN /\ l' = l + 1 /\ findings' = f
     /\ verdict' = (IF c # "" THEN "fail" ELSE IF l + 1 > Len(Ev) THEN "ok" ELSE "run")
     /\ (c # "" => Report(FALSE, l, c, f))
     /\ ((c = "" /\ l + 1 > Len(Ev)) => Report(TRUE, l, "", f))
TStep ==
  /\ verdict = "run" /\ l <= Len(Ev) /\ UNCHANGED tr /\ Alive
  /\ LET e == Ev[l] IN
     \/ /\ e.ev = "render" /\ Render(e.t, e.c, e.hasu)       \* (a raising render ends the history: the driver stops there)
        /\ Finish(IF e.raised # (last'.op = "raised") THEN "raised" ELSE IF e.raised THEN "" ELSE RenderClause(e))
     \/ /\ e.ev = "renderdef" /\ \E j \in 1..NSec(e.t) : W[e.t].secs[j].name = e.name /\ RenderDef(e.t, j, e.arg, e.c)
        /\ Finish(RenderClause(e))
     \/ /\ e.ev = "invbody" /\ InvalidateBody(e.t) /\ Finish(Common(e))
     \/ /\ e.ev = "invdef" /\ InvalidateDef(e.t, e.name) /\ Finish(Common(e))
     \/ /\ e.ev = "invclosure" /\ InvalidateClosure(e.t, e.name) /\ Finish(Common(e))
     \/ /\ e.ev = "inv" /\ Invalidate(e.t, e.key, e.x) /\ Finish(Common(e))
     \/ /\ e.ev = "set" /\ Set(e.t, e.key, e.x) /\ Finish(IF e.n # nset' THEN "set-n" ELSE Common(e))
     \/ /\ e.ev = "get" /\ Get(e.t, e.key, e.x) /\ Finish(GetClause(e))
     \/ /\ e.ev = "toggle" /\ ToggleEnabled(e.t) /\ Finish(IF e.en # enabled'[e.t] THEN "enabled" ELSE "")
TStuck ==
  /\ verdict = "run" /\ l <= Len(Ev) /\ ~ENABLED TStep
  /\ verdict' = "fail" /\ Report(FALSE, l, "not-enabled", findings) /\ UNCHANGED <<vars, tr, l, findings>>
TEmpty == /\ verdict = "run" /\ Len(Ev) = 0 /\ verdict' = "ok" /\ Report(TRUE, 0, "", findings) /\ UNCHANGED <<vars, tr, l, findings>>
TNext == TStep \/ TStuck \/ TEmpty
TSpec == TInit /\ [][TNext]_tvars
=============================================================================
