----------------------------- MODULE ExtractCat -----------------------------
(* Catalog of template items for MC_Extract.  PLACEHOLDER with an example  *)
(* so that the modules parse on their own; harness/c20.py overwrites it in *)
(* the scratch directory of every TLC run with the catalog measured from   *)
(* the concrete item texts of that run.  Fields: see Extract.tla.          *)
XCatDef == <<
  [id |-> "tc", kind |-> "tc", tag |-> "A", w |-> <<18, 0>>, ls |-> TRUE, msgs |-> <<>>],
  [id |-> "expr", kind |-> "cons", tag |-> "none", w |-> <<11>>, ls |-> FALSE,
   msgs |-> <<[off |-> 0, fn |-> "_", m |-> "a", own |-> TRUE]>>] >>
=============================================================================
