----------------------------- MODULE LookupConc -----------------------------
(***************************************************************************)
(* Concurrent get_template calls on one TemplateLookup (property C16).     *)
(*                                                                         *)
(* PlusCal; each thread executes get_template(uri[self]) as the labelled   *)
(* steps of mako/lookup.py (TemplateLookup.get_template, _check, _load)    *)
(* and of Template construction (mako/template.py _compile_from_file ->    *)
(* util.read_file; mako/codegen.py `_modified_time = time.time()`):        *)
(*                                                                         *)
(*   Start     the call begins (ghost: remember what is on disk now)       *)
(*   ReadColl  self._collection[uri]            (no lock held)             *)
(*   Stat      _check: os.stat + `_modified_time >= st_mtime`              *)
(*   PopStale  self._collection.pop(uri, None)  (no lock held)             *)
(*   Probe     os.path.isfile(srcfile)                                     *)
(*   Acquire   self._mutex.acquire()                                       *)
(*   Second    second-chance read self._collection[uri] under the mutex    *)
(*   ReadSrc   util.read_file(filename): the content is fixed here         *)
(*   Stamp     codegen: _modified_time = time.time(); construction ends    *)
(*   Store     self._collection[uri] = template                            *)
(*   PopFail   except: self._collection.pop(uri, None); raise              *)
(*   Release   finally: self._mutex.release()                              *)
(*   RelHit    release after a second-chance hit                           *)
(*   Fin       return / raise to the caller                                *)
(*                                                                         *)
(* and an environment process modifies files (working or broken content,   *)
(* mtime = current whole second) and advances the clock between any two    *)
(* steps.  Time is in ticks, TPS ticks per second; mtimes are whole        *)
(* seconds, compile stamps are ticks (as in Lookup.tla).                    *)
(*                                                                         *)
(* This is the INTENDED protocol: a second-chance hit is subject to the    *)
(* same freshness test as a first-chance hit (RelHit goes back to Stat).   *)
(* The code returns the second-chance hit unchecked; that deviation is the *)
(* named action Dev_SecondChanceUnchecked below, which is NOT part of Next *)
(* (it is used by Trace_LookupConc and by the MC instance that reproduces  *)
(* finding #19).                                                           *)
(*                                                                         *)
(* One directory, collection_size = -1 (a plain dict); the LRU under       *)
(* concurrency is in RenderShared.tla, directory priority in Lookup.tla.   *)
(***************************************************************************)
EXTENDS Naturals, Sequences, FiniteSets, TLC
CONSTANTS Threads,    \* thread names (strings)
          NU,         \* URIs are 1..NU
          MaxVer,     \* bound on versions per file   (model bound only)
          MaxTick,    \* bound on the clock           (model bound only)
          EnvSteps,   \* number of environment steps
          EnvKinds,   \* subset of {"modify", "break", "tick"}
          FsChecks,   \* filesystem_checks
          TPS,        \* ticks per second
          Warm,       \* TRUE: every URI with a working file is already cached (compiled at tick 0)
          InitSt      \* allowed initial file states, subset of {"ok", "broken", "absent"}
Uris == 1..NU
None == [kind |-> "none"]
Pending == [kind |-> "pending"]
Sec(tk) == tk \div TPS
InitFile(s) == [st |-> s, ver |-> IF s = "absent" THEN 0 ELSE 1, mt |-> 0]
Rank(u, f) == Cardinality({v \in 1..u : f[v].st = "ok"})
WarmEntry(u, f) == IF Warm /\ f[u].st = "ok"
                   THEN [kind |-> "file", ver |-> 1, ct |-> 0, obj |-> Rank(u, f), complete |-> TRUE]
                   ELSE None

(* --algorithm LookupConc
variables
  uri \in [Threads -> Uris],                         \* which URI each thread asks for
  file \in [Uris -> {InitFile(s) : s \in InitSt}],   \* the source files (one directory)
  now = 0,                                           \* clock, ticks
  coll = [u \in Uris |-> WarmEntry(u, file)],        \* TemplateLookup._collection
  mutex = "free",                                    \* TemplateLookup._mutex: "free" or the owner
  nobj = Cardinality({u \in Uris : coll[u].kind # "none"}),                            \* Template objects constructed so far
  built = [u \in Uris |-> IF coll[u].kind = "none" THEN 0 ELSE 1],
  envleft = EnvSteps,
  res = [t \in Threads |-> Pending],                 \* what the call returned / raised
  startf = [t \in Threads |-> InitFile("absent")],   \* ghost: the file when the call started
  changed = [u \in Uris |-> FALSE];                  \* ghost: file u was modified during the run

process env = "env"
begin
E: while envleft > 0 do
     await \E t \in Threads : pc[t] # "Done";
     either
       with u \in {x \in Uris : file[x].st # "absent"}, k \in EnvKinds \cap {"modify", "break"} do
         await file[u].ver < MaxVer;
         file[u] := [st |-> IF k = "modify" THEN "ok" ELSE "broken", ver |-> file[u].ver + 1, mt |-> Sec(now)];
         changed[u] := TRUE;
       end with;
     or
       await "tick" \in EnvKinds /\ now < MaxTick;
       now := now + 1;
     end either;
     envleft := envleft - 1;
   end while;
end process;

fair process th \in Threads
variables r = None, src = InitFile("absent"), tm = None;
begin
Start:    startf[self] := file[uri[self]];
ReadColl: r := coll[uri[self]];
          if r.kind = "none" then goto Probe;
          elsif ~FsChecks then res[self] := r; goto Fin;
          end if;
Stat:     if r.ct >= TPS * file[uri[self]].mt then res[self] := r; goto Fin; end if;
PopStale: coll[uri[self]] := None;
          goto Acquire;
Probe:    if file[uri[self]].st = "absent" then res[self] := [kind |-> "toplevel_exc"]; goto Fin; end if;
Acquire:  await mutex = "free";
          mutex := self;
Second:   if coll[uri[self]].kind # "none" then r := coll[uri[self]]; goto RelHit; end if;
ReadSrc:  src := file[uri[self]];
          if src.st = "broken" then goto PopFail; end if;
Stamp:    nobj := nobj + 1;
          built[uri[self]] := built[uri[self]] + 1;
          tm := [kind |-> "file", ver |-> src.ver, ct |-> now, obj |-> nobj, complete |-> TRUE];
Store:    coll[uri[self]] := tm;
          res[self] := tm;
          goto Release;
PopFail:  coll[uri[self]] := None;
          res[self] := [kind |-> "compile_error"];
Release:  mutex := "free";
          goto Fin;
RelHit:   mutex := "free";
          if FsChecks then goto Stat; else res[self] := r; end if;
Fin:      skip;
end process;
end algorithm; *)
\* BEGIN TRANSLATION
VARIABLES pc, uri, file, now, coll, mutex, nobj, built, envleft, res, startf, 
          changed, r, src, tm

vars == << pc, uri, file, now, coll, mutex, nobj, built, envleft, res, startf, 
           changed, r, src, tm >>

ProcSet == {"env"} \cup (Threads)

Init == (* Global variables *)
        /\ uri \in [Threads -> Uris]
        /\ file \in [Uris -> {InitFile(s) : s \in InitSt}]
        /\ now = 0
        /\ coll = [u \in Uris |-> WarmEntry(u, file)]
        /\ mutex = "free"
        /\ nobj = Cardinality({u \in Uris : coll[u].kind # "none"})
        /\ built = [u \in Uris |-> IF coll[u].kind = "none" THEN 0 ELSE 1]
        /\ envleft = EnvSteps
        /\ res = [t \in Threads |-> Pending]
        /\ startf = [t \in Threads |-> InitFile("absent")]
        /\ changed = [u \in Uris |-> FALSE]
        (* Process th *)
        /\ r = [self \in Threads |-> None]
        /\ src = [self \in Threads |-> InitFile("absent")]
        /\ tm = [self \in Threads |-> None]
        /\ pc = [self \in ProcSet |-> CASE self = "env" -> "E"
                                        [] self \in Threads -> "Start"]

E == /\ pc["env"] = "E"
     /\ IF envleft > 0
           THEN /\ \E t \in Threads : pc[t] # "Done"
                /\ \/ /\ \E u \in {x \in Uris : file[x].st # "absent"}:
                           \E k \in EnvKinds \cap {"modify", "break"}:
                             /\ file[u].ver < MaxVer
                             /\ file' = [file EXCEPT ![u] = [st |-> IF k = "modify" THEN "ok" ELSE "broken", ver |-> file[u].ver + 1, mt |-> Sec(now)]]
                             /\ changed' = [changed EXCEPT ![u] = TRUE]
                      /\ now' = now
                   \/ /\ "tick" \in EnvKinds /\ now < MaxTick
                      /\ now' = now + 1
                      /\ UNCHANGED <<file, changed>>
                /\ envleft' = envleft - 1
                /\ pc' = [pc EXCEPT !["env"] = "E"]
           ELSE /\ pc' = [pc EXCEPT !["env"] = "Done"]
                /\ UNCHANGED << file, now, envleft, changed >>
     /\ UNCHANGED << uri, coll, mutex, nobj, built, res, startf, r, src, tm >>

env == E

Start(self) == /\ pc[self] = "Start"
               /\ startf' = [startf EXCEPT ![self] = file[uri[self]]]
               /\ pc' = [pc EXCEPT ![self] = "ReadColl"]
               /\ UNCHANGED << uri, file, now, coll, mutex, nobj, built, 
                               envleft, res, changed, r, src, tm >>

ReadColl(self) == /\ pc[self] = "ReadColl"
                  /\ r' = [r EXCEPT ![self] = coll[uri[self]]]
                  /\ IF r'[self].kind = "none"
                        THEN /\ pc' = [pc EXCEPT ![self] = "Probe"]
                             /\ res' = res
                        ELSE /\ IF ~FsChecks
                                   THEN /\ res' = [res EXCEPT ![self] = r'[self]]
                                        /\ pc' = [pc EXCEPT ![self] = "Fin"]
                                   ELSE /\ pc' = [pc EXCEPT ![self] = "Stat"]
                                        /\ res' = res
                  /\ UNCHANGED << uri, file, now, coll, mutex, nobj, built, 
                                  envleft, startf, changed, src, tm >>

Stat(self) == /\ pc[self] = "Stat"
              /\ IF r[self].ct >= TPS * file[uri[self]].mt
                    THEN /\ res' = [res EXCEPT ![self] = r[self]]
                         /\ pc' = [pc EXCEPT ![self] = "Fin"]
                    ELSE /\ pc' = [pc EXCEPT ![self] = "PopStale"]
                         /\ res' = res
              /\ UNCHANGED << uri, file, now, coll, mutex, nobj, built, 
                              envleft, startf, changed, r, src, tm >>

PopStale(self) == /\ pc[self] = "PopStale"
                  /\ coll' = [coll EXCEPT ![uri[self]] = None]
                  /\ pc' = [pc EXCEPT ![self] = "Acquire"]
                  /\ UNCHANGED << uri, file, now, mutex, nobj, built, envleft, 
                                  res, startf, changed, r, src, tm >>

Probe(self) == /\ pc[self] = "Probe"
               /\ IF file[uri[self]].st = "absent"
                     THEN /\ res' = [res EXCEPT ![self] = [kind |-> "toplevel_exc"]]
                          /\ pc' = [pc EXCEPT ![self] = "Fin"]
                     ELSE /\ pc' = [pc EXCEPT ![self] = "Acquire"]
                          /\ res' = res
               /\ UNCHANGED << uri, file, now, coll, mutex, nobj, built, 
                               envleft, startf, changed, r, src, tm >>

Acquire(self) == /\ pc[self] = "Acquire"
                 /\ mutex = "free"
                 /\ mutex' = self
                 /\ pc' = [pc EXCEPT ![self] = "Second"]
                 /\ UNCHANGED << uri, file, now, coll, nobj, built, envleft, 
                                 res, startf, changed, r, src, tm >>

Second(self) == /\ pc[self] = "Second"
                /\ IF coll[uri[self]].kind # "none"
                      THEN /\ r' = [r EXCEPT ![self] = coll[uri[self]]]
                           /\ pc' = [pc EXCEPT ![self] = "RelHit"]
                      ELSE /\ pc' = [pc EXCEPT ![self] = "ReadSrc"]
                           /\ r' = r
                /\ UNCHANGED << uri, file, now, coll, mutex, nobj, built, 
                                envleft, res, startf, changed, src, tm >>

ReadSrc(self) == /\ pc[self] = "ReadSrc"
                 /\ src' = [src EXCEPT ![self] = file[uri[self]]]
                 /\ IF src'[self].st = "broken"
                       THEN /\ pc' = [pc EXCEPT ![self] = "PopFail"]
                       ELSE /\ pc' = [pc EXCEPT ![self] = "Stamp"]
                 /\ UNCHANGED << uri, file, now, coll, mutex, nobj, built, 
                                 envleft, res, startf, changed, r, tm >>

Stamp(self) == /\ pc[self] = "Stamp"
               /\ nobj' = nobj + 1
               /\ built' = [built EXCEPT ![uri[self]] = built[uri[self]] + 1]
               /\ tm' = [tm EXCEPT ![self] = [kind |-> "file", ver |-> src[self].ver, ct |-> now, obj |-> nobj', complete |-> TRUE]]
               /\ pc' = [pc EXCEPT ![self] = "Store"]
               /\ UNCHANGED << uri, file, now, coll, mutex, envleft, res, 
                               startf, changed, r, src >>

Store(self) == /\ pc[self] = "Store"
               /\ coll' = [coll EXCEPT ![uri[self]] = tm[self]]
               /\ res' = [res EXCEPT ![self] = tm[self]]
               /\ pc' = [pc EXCEPT ![self] = "Release"]
               /\ UNCHANGED << uri, file, now, mutex, nobj, built, envleft, 
                               startf, changed, r, src, tm >>

PopFail(self) == /\ pc[self] = "PopFail"
                 /\ coll' = [coll EXCEPT ![uri[self]] = None]
                 /\ res' = [res EXCEPT ![self] = [kind |-> "compile_error"]]
                 /\ pc' = [pc EXCEPT ![self] = "Release"]
                 /\ UNCHANGED << uri, file, now, mutex, nobj, built, envleft, 
                                 startf, changed, r, src, tm >>

Release(self) == /\ pc[self] = "Release"
                 /\ mutex' = "free"
                 /\ pc' = [pc EXCEPT ![self] = "Fin"]
                 /\ UNCHANGED << uri, file, now, coll, nobj, built, envleft, 
                                 res, startf, changed, r, src, tm >>

RelHit(self) == /\ pc[self] = "RelHit"
                /\ mutex' = "free"
                /\ IF FsChecks
                      THEN /\ pc' = [pc EXCEPT ![self] = "Stat"]
                           /\ res' = res
                      ELSE /\ res' = [res EXCEPT ![self] = r[self]]
                           /\ pc' = [pc EXCEPT ![self] = "Fin"]
                /\ UNCHANGED << uri, file, now, coll, nobj, built, envleft, 
                                startf, changed, r, src, tm >>

Fin(self) == /\ pc[self] = "Fin"
             /\ TRUE
             /\ pc' = [pc EXCEPT ![self] = "Done"]
             /\ UNCHANGED << uri, file, now, coll, mutex, nobj, built, envleft, 
                             res, startf, changed, r, src, tm >>

th(self) == Start(self) \/ ReadColl(self) \/ Stat(self) \/ PopStale(self)
               \/ Probe(self) \/ Acquire(self) \/ Second(self)
               \/ ReadSrc(self) \/ Stamp(self) \/ Store(self)
               \/ PopFail(self) \/ Release(self) \/ RelHit(self)
               \/ Fin(self)

(* Allow infinite stuttering to prevent deadlock on termination. *)
Terminating == /\ \A self \in ProcSet: pc[self] = "Done"
               /\ UNCHANGED vars

Next == env
           \/ (\E self \in Threads: th(self))
           \/ Terminating

Spec == /\ Init /\ [][Next]_vars
        /\ \A self \in Threads : WF_vars(th(self))

Termination == <>(\A self \in ProcSet: pc[self] = "Done")

\* END TRANSLATION

(* ---------------- deviation of the code from the intended protocol (never part of Next) ------------ *)
\* lookup.py _load: `return self._collection[uri]` -- the second-chance hit is returned without _check
Dev_SecondChanceUnchecked(self) ==
   /\ FsChecks /\ pc[self] = "Second" /\ coll[uri[self]].kind # "none"
   /\ r' = [r EXCEPT ![self] = coll[uri[self]]]
   /\ res' = [res EXCEPT ![self] = coll[uri[self]]]
   /\ pc' = [pc EXCEPT ![self] = "Release"]
   /\ UNCHANGED <<uri, file, now, coll, mutex, nobj, built, envleft, startf, changed, src, tm>>
NextDev == Next \/ \E self \in Threads : Dev_SecondChanceUnchecked(self)
SpecDev == Init /\ [][NextDev]_vars

(* ---------------- the property (C16, lookup half) ---------------- *)
Held == {"Second", "ReadSrc", "Stamp", "Store", "PopFail", "Release", "RelHit"}
AllDone == \A t \in Threads : pc[t] = "Done"
\* the mutex is held exactly between Acquire and Release, by one thread, and is free at the end
MutexDiscipline ==
   /\ (mutex # "free" => pc[mutex] \in Held)
   /\ \A t \in Threads : pc[t] \in Held => mutex = t
   /\ (AllDone => mutex = "free")
\* while a file does not change it is compiled at most once and everybody gets the same object;
\* simultaneous first requests: exactly one compilation
FirstRequestsCompileOnce ==
   \A u \in Uris : ~changed[u] =>
      /\ built[u] <= 1
      /\ \A a, b \in Threads : (uri[a] = u /\ uri[b] = u /\ res[a].kind = "file" /\ res[b].kind = "file") => res[a].obj = res[b].obj
      /\ (AllDone /\ file[u].st = "ok" /\ \E t \in Threads : uri[t] = u) => built[u] = 1
\* nothing incompletely constructed is visible in the collection or returned
CompleteObject ==
   /\ \A u \in Uris : coll[u].kind = "file" => coll[u].complete
   /\ \A t \in Threads : res[t].kind = "file" => res[t].complete
\* returned content is no older than the file was when the call started, unless excused by the
\* freshness rule of C14 (the file's mtime is less than one whole second past the compile moment)
FreshOf(x) == res[x].kind = "file" => (res[x].ver >= startf[x].ver \/ TPS * startf[x].mt < res[x].ct + TPS)
FreshSinceCallStart == FsChecks => \A x \in Threads : FreshOf(x)
OnlyDocumentedExceptions ==
   \A t \in Threads :
      /\ res[t].kind \in {"pending", "file", "toplevel_exc", "compile_error"}
      /\ (res[t].kind = "toplevel_exc" => startf[t].st = "absent")
      /\ (res[t].kind = "compile_error" => src[t].st = "broken")
      /\ (pc[t] = "Done" => res[t].kind # "pending")
\* liveness: no thread is left blocked (weak fairness on the threads, none on the environment)
NoThreadBlocked == \A t \in Threads : <>(pc[t] = "Done")
TypeOK == /\ mutex \in Threads \cup {"free"} /\ now \in 0..MaxTick
=============================================================================
