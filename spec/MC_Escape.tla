------------------------------- MODULE MC_Escape -------------------------------
(***************************************************************************)
(* Bounded instances of Escape.tla.  The alphabet (characters and their    *)
(* facts from CPython's tables), the names to enumerate over and the       *)
(* charsets come from the module EscapeInput, which harness/c10.py         *)
(* generates for every run.  Every state (= every string up to MaxLen) is  *)
(* exported as one JSON line with the expected output of every filter, as  *)
(* sequences of character names; harness/c10.py compares them with the     *)
(* real filters and with Template.render.                                  *)
(***************************************************************************)
EXTENDS Escape, Json, EscapeInput
FileAlphabet == [n \in {InAlphabet[i].n : i \in DOMAIN InAlphabet} |->
                   InAlphabet[CHOOSE i \in DOMAIN InAlphabet : InAlphabet[i].n = n]]
FileGen == InGen
FileCharsets == InCharsets
Row == [s |-> str, h |-> out.h, x |-> out.x, u |-> out.u, entity |-> out.entity, trim |-> out.trim,
        unescape |-> der.dent.val, ltrim |-> LStripWs(str), rtrim |-> RStripWs(str),
        dec |-> [k \in DOMAIN out.dec |-> out.dec[k].val], enc |-> der.enc]
MCNext == Next /\ PrintT(ToJson(Row'))
MCSpec == Init /\ [][MCNext]_vars
ASSUME PrintT(ToJson([s |-> <<>>, h |-> <<>>, x |-> <<>>, u |-> <<>>, entity |-> <<>>, trim |-> <<>>, unescape |-> <<>>, ltrim |-> <<>>, rtrim |-> <<>>,
                      dec |-> [k \in {"str", "bytes", "obj"} |-> <<>>], enc |-> [cs \in InCharsets |-> <<>>]]))
=============================================================================
