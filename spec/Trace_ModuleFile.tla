--------------------------- MODULE Trace_ModuleFile ---------------------------
(***************************************************************************)
(* Validates event traces of real Template(filename, module_directory)     *)
(* constructions -- run in child processes whose file-system calls are     *)
(* interposed, scheduled one call at a time by the harness and killed at   *)
(* chosen calls -- against ModuleFile.tla.  One initial state per trace;   *)
(* one JSON verdict per trace {t, ok, i, clause}.                          *)
(*                                                                         *)
(* Every event carries `post`, the state of the module path as found on    *)
(* disk after the event (absent / complete+from+magic / partial); it must  *)
(* equal the model's `mod`.  An interposed call the protocol does not know *)
(* ("fsop": an open for writing or an unlink below the module directory)   *)
(* is a stuttering step, so it is accepted exactly when it leaves the      *)
(* module path as it was.  os.close of the temp file is optional.          *)
(***************************************************************************)
EXTENDS ModuleFile, Json, IOUtils, TLCExt
Traces == JsonDeserialize(IOEnv.TRACE_FILE)
VARIABLES tr, l, verdict
tvars == <<vars, tr, l, verdict>>
Ev == Traces[tr].events
TInit == Init /\ tr \in 1..Len(Traces) /\ l = 1 /\ verdict = "run"
Report(ok, i, clause) == PrintT(ToJson([t |-> Traces[tr].id, ok |-> ok, i |-> i, clause |-> clause]))
C(b, name) == IF b THEN "" ELSE name
PostClause(e) ==
  IF e.post.st = "partial" THEN "inv:ModuleIntegrity(partial module file at the module path)"
  ELSE IF e.post.st # mod'.st THEN "post-module-state"
  ELSE IF e.post.st = "complete" /\ (e.post.from # mod'.from \/ e.post.magic # mod'.magic) THEN "post-module-content"
  ELSE ""
InvClause ==
  IF ~RewriteWhenDue' THEN "inv:RewriteWhenDue"
  ELSE IF ~ReuseOtherwise' THEN "inv:ReuseOtherwise"
  ELSE IF ~RendersCurrent' THEN "inv:RendersCurrent"
  ELSE IF ~WriterExactlyWhenDue' THEN "inv:WriterExactlyWhenDue"
  ELSE ""
Finish(c0, e) ==
  LET c1 == IF c0 # "" THEN c0 ELSE PostClause(e)
      c  == IF c1 # "" THEN c1 ELSE InvClause
  IN /\ l' = l + 1
     /\ verdict' = (IF c # "" THEN "fail" ELSE IF l + 1 > Len(Ev) THEN "ok" ELSE "run")
     /\ (c # "" => Report(FALSE, l, c)) /\ ((c = "" /\ l + 1 > Len(Ev)) => Report(TRUE, l, ""))
Stutter == UNCHANGED vars
\* whether the code re-checks the directory after creating it is not part of the property: once the directory
\* exists the probes of the staleness test may follow directly
TProbing == Probing \cup {"CheckDir"}
TStep ==
  /\ verdict = "run" /\ l <= Len(Ev) /\ UNCHANGED tr
  /\ LET e == Ev[l] IN
     \/ /\ e.ev = "modify" /\ Modify(e.mt) /\ Finish("", e)
     \/ /\ e.ev = "tick" /\ Tick /\ Finish("", e)
     \/ /\ e.ev = "delmod" /\ DeleteMod /\ Finish("", e)
     \/ /\ e.ev = "oldgen" /\ OtherGen(e.newer) /\ Finish("", e)
     \/ /\ e.ev = "begin" /\ Begin(e.p) /\ Finish("", e)
     \* creation of the module directory: the probe reports what is there; a makedirs that finds the directory made by
     \* somebody else meanwhile must not make the construction fail (an "exc" event is never enabled)
     \/ /\ e.ev = "direxists" /\ CheckDir(e.p) /\ Finish(C(e.r = dir, "direxists-r"), e)
     \/ /\ e.ev = "mkdir" /\ MkDir(e.p) /\ Finish(C(e.created = ~dir, "mkdir-created"), e)
     \* probes: any order, any number; only the reported values are compared
     \/ /\ e.ev = "statsrc" /\ pc[e.p] \in TProbing /\ Stutter /\ Finish(C(e.mt = src.mt, "statsrc-mt"), e)
     \/ /\ e.ev = "exists" /\ pc[e.p] \in TProbing /\ Stutter /\ Finish(C(e.r = (mod.st # "absent"), "exists-r"), e)
     \/ /\ e.ev = "statmod" /\ pc[e.p] \in TProbing /\ Stutter /\ Finish(C(mod.st # "absent" /\ e.mt = mod.mt, "statmod-mt"), e)
     \/ /\ e.ev = "readsrc" /\ ReadSrcFrom(e.p, TProbing \cup {"ReadSrc"}) /\ Finish(C(e.ver = src.ver, "readsrc-ver"), e)
     \* creation of the temp file (tempfile.mkstemp, os.open or open(.., "w") below the module directory): it must
     \* be a file of its own in the module directory -- not the module path, and not a name another process uses
     \/ /\ e.ev = "mkstemp" /\ Mkstemp(e.p)
        /\ Finish(IF ~e.same_dir \/ e.is_modpath THEN "temp-file-not-in-the-module-directory-or-is-the-module-path"
                  ELSE IF ~e.private THEN "temp-file-name-shared-between-processes" ELSE "", e)
     \* a module_writer is configured but the code writes the file itself: the protocol goes on (and is checked), the
     \* verdict comes from WriterExactlyWhenDue when the construction completes
     \/ /\ e.ev = "mkstemp" /\ pc[e.p] = "CallWriter"
        /\ tmp' = [tmp EXCEPT ![e.p] = [st |-> "open", from |-> loc[e.p].data, bytes |-> 0]]
        /\ Go(e.p, "Write", loc[e.p], [ev |-> "mkstemp"]) /\ UNCHANGED <<now, src, mod, dir>>
        /\ Finish(IF ~e.same_dir \/ e.is_modpath THEN "temp-file-not-in-the-module-directory-or-is-the-module-path" ELSE "", e)
     \/ /\ e.ev = "write" /\ Write(e.p) /\ Finish(C(e.full, "short-write"), e)
     \/ /\ e.ev = "close" /\ Close(e.p) /\ Finish("", e)
     \* the rename: from the Move label, or earlier when os.close / os.write were not separate observed steps
     \/ /\ e.ev = "move" /\ pc[e.p] \in {"Write", "Close", "Move"} /\ MoveFrom(e.p, pc[e.p], e.src_complete)
        /\ Finish(IF ~(e.to_modpath /\ e.from_moddir) THEN "move-endpoints"
                  ELSE IF ~e.src_complete THEN "inv:ModuleIntegrity(incomplete file moved to the module path)" ELSE "", e)
     \* a rename of something that is not a complete module onto the module path: judged, not merely "not enabled"
     \/ /\ e.ev = "move" /\ e.to_modpath /\ ~e.src_complete /\ pc[e.p] \in {"Mkstemp", "Write", "Close", "Move", "Failed"} /\ tmp[e.p].bytes # 2
        /\ Stutter /\ Finish("inv:ModuleIntegrity(incomplete file moved to the module path)", e)
     \/ /\ e.ev = "writer" /\ CallWriter(e.p) /\ Finish(C(e.bytes_ok /\ e.path_ok, "module_writer-arguments"), e)
     \/ /\ e.ev = "load" /\ LoadFrom(e.p, TProbing \cup {"Load"}) /\ Finish(C(e.from = mod.from /\ e.magic = mod.magic, "load-content"), e)
     \/ /\ e.ev = "done" /\ Done(e.p) /\ Finish(C(e.rendered = loc[e.p].loaded.from, "done-rendered"), e)
     \* a construction that finishes without importing the module file (it reuses a module it holds in memory):
     \* judged by the property, not by the protocol -- no rewrite may have been due, and what it renders must be
     \* a version the module path held during the construction (the current one if that is all it held)
     \/ /\ e.ev = "done" /\ pc[e.p] \in TProbing \cup {"Load"}
        /\ Go(e.p, "idle", loc[e.p], [ev |-> "done", rendered |-> e.rendered, rewrote |-> loc[e.p].rewrote])
        /\ UNCHANGED <<now, src, mod, tmp, dir>>
        /\ Finish(IF loc[e.p].due0 /\ ~loc[e.p].others /\ ~loc[e.p].rewrote
                     THEN "inv:RewriteWhenDue(finished without importing the module file although a rewrite was due)"
                  ELSE IF e.rendered \notin loc[e.p].seen \/ (loc[e.p].seen = {src.ver} /\ e.rendered # src.ver)
                     THEN "inv:RendersCurrent(finished without importing the module file and renders another version)"
                  ELSE "", e)
     \* an injected failure of a writing call, and the exception the constructor then raises; a failing implementation
     \* may instead finish from memory, if what it renders is the current source
     \/ /\ e.ev = "fail" /\ Fail(e.p) /\ (e.mid <=> (pc[e.p] = "Write" /\ tmp'[e.p].bytes = 1)) /\ Finish("", e)
     \/ /\ e.ev = "exc" /\ Raise(e.p) /\ Finish("", e)
     \* clean-up the failing process does before it raises: closing the temp file changes nothing; publishing it is
     \* judged like any other rename onto the module path (complete: a rewrite; incomplete: the disjunct above)
     \/ /\ e.ev = "close" /\ pc[e.p] = "Failed" /\ Stutter /\ Finish("", e)
     \/ /\ e.ev = "move" /\ pc[e.p] = "Failed" /\ e.to_modpath /\ e.src_complete /\ tmp[e.p].st # "none"
        /\ mod' = [st |-> "complete", from |-> tmp[e.p].from, magic |-> Magic, mt |-> now]
        /\ tmp' = [tmp EXCEPT ![e.p] = NoTmp] /\ loc' = Published(e.p, tmp[e.p].from) /\ last' = [ev |-> "move", p |-> e.p]
        /\ UNCHANGED <<now, src, dir, pc>> /\ Finish("", e)
     \/ /\ e.ev = "done" /\ pc[e.p] = "Failed"
        /\ Go(e.p, "idle", Idle, [ev |-> "done", rendered |-> e.rendered, rewrote |-> FALSE]) /\ UNCHANGED <<now, src, mod, tmp, dir>>
        /\ Finish(C(e.rendered = src.ver, "inv:RendersCurrent(after a failed write the Template renders another version)"), e)
     \/ /\ e.ev = "crash" /\ Crash(e.p) /\ (e.mid <=> (pc[e.p] = "Write" /\ tmp'[e.p].bytes = 1)) /\ Finish("", e)
     \/ /\ e.ev = "fsop" /\ pc[e.p] # "idle" /\ Stutter /\ Finish("", e)
TStuck == /\ verdict = "run" /\ l <= Len(Ev) /\ ~ENABLED TStep
          /\ verdict' = "fail" /\ Report(FALSE, l, "not-enabled:" \o Ev[l].ev) /\ UNCHANGED <<vars, tr, l>>
TEmpty == /\ verdict = "run" /\ Len(Ev) = 0 /\ verdict' = "ok" /\ Report(TRUE, 0, "") /\ UNCHANGED <<vars, tr, l>>
TNext == TStep \/ TStuck \/ TEmpty
TSpec == TInit /\ [][TNext]_tvars
=============================================================================
