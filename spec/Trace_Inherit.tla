---------------------------- MODULE Trace_Inherit ----------------------------
(***************************************************************************)
(* Validates token sequences recorded from real renders of (seeded random) *)
(* inheritance chains against Inherit.tla.  A trace is {id, cfg, out}: the *)
(* configuration (templates with their scripts, exactly what was written   *)
(* into the real templates) and the tokens the real render produced.  One  *)
(* initial state per trace; the machine of Inherit.tla links and runs the  *)
(* configuration (all invariants of Inherit.tla are checked on the way),   *)
(* and the terminal step compares `out` with the recording.  Verdicts are  *)
(* total: one JSON line {t, ok, i, clause, exp} per trace, naming the      *)
(* first differing token.                                                  *)
(***************************************************************************)
EXTENDS Inherit, Json, IOUtils
Traces == JsonDeserialize(IOEnv.TRACE_FILE)
VARIABLES tr, verdict
tvars == <<vars, tr, verdict>>
TMaxN == [dispatch |-> 0, attrs |-> 0, blocks |-> 0, args |-> 0, dyn |-> 0, entry |-> 0, dirs |-> 0]      \* (the MC enumeration is not used here)
TraceTplImpl(t, i) == Traces[t].cfg.tpl[i]
TInit == \E t \in 1..Len(Traces) :
           /\ tr = t /\ verdict = "run"
           /\ InitWith([fam |-> "trace", id |-> t, N |-> Traces[t].cfg.N, top |-> Traces[t].cfg.top, entry |-> Traces[t].cfg.entry,
                        sw |-> Traces[t].cfg.sw, pa |-> Traces[t].cfg.pa])
Obs == Traces[tr].out
MinLen == IF Len(out) < Len(Obs) THEN Len(out) ELSE Len(Obs)
Diffs == {k \in 1..MinLen : out[k] # Obs[k]}
FirstDiff == IF Diffs # {} THEN CHOOSE k \in Diffs : \A k2 \in Diffs : k <= k2
             ELSE IF Len(out) # Len(Obs) THEN MinLen + 1 ELSE 0
Clause(d) == IF d = 0 THEN "" ELSE IF d > Len(out) THEN "extra-output" ELSE IF d > Len(Obs) THEN "missing-output"
             ELSE IF out[d].k # Obs[d].k THEN "kind" ELSE IF out[d].l # Obs[d].l THEN "level" ELSE IF out[d].x # Obs[d].x THEN "arg" ELSE "name"
Judge ==
  /\ phase = "done" /\ verdict = "run"
  /\ LET d == FirstDiff IN
     /\ verdict' = (IF d = 0 THEN "ok" ELSE "fail")
     /\ PrintT(ToJson([t |-> Traces[tr].id, ok |-> (d = 0), i |-> d, clause |-> Clause(d),
                       exp |-> IF d = 0 \/ d > Len(out) THEN Tok("END", "", 0, 0) ELSE out[d],
                       prev |-> IF d > 1 /\ d - 1 <= Len(out) THEN out[d - 1] ELSE Tok("START", "", 0, 0)]))
  /\ UNCHANGED <<vars, tr>>
TNext == (Next /\ UNCHANGED <<tr, verdict>>) \/ Judge
TSpec == TInit /\ [][TNext]_tvars
=============================================================================
