------------------------------- MODULE Paths -------------------------------
(***************************************************************************)
(* Construction and rendering paths of a template (property C08).          *)
(*                                                                         *)
(* A history model written in the shape of mako/template.py:               *)
(*   - sources (immutable texts, each with a URI and a file);              *)
(*   - live Template objects with the path they came to life on            *)
(*     (Template.__init__: text / filename / filename + module_directory;  *)
(*     ModuleTemplate.__init__);                                           *)
(*   - the ModuleInfo registry exactly as the code keeps it                *)
(*     (ModuleInfo._modules, a WeakValueDictionary keyed by                *)
(*     module.__name__ -- which is Template.module_id, the URI or file     *)
(*     name with every non-word character replaced by "_", or              *)
(*     "memory:<id>" for a text without URI -- and by the module file      *)
(*     name; the only strong reference to a ModuleInfo is                  *)
(*     template._mmarker of the Template that created it);                 *)
(*   - module files on disk (Template._compile_from_file,                  *)
(*     _compile_module_file, compat.load_module);                          *)
(*   - process epochs (a later process keeps the files only).              *)
(* Queries: render* use the template's own module (Template.callable_);    *)
(* Template.source / Template.code go through the registry by module name  *)
(* (_get_module_info_from_callable); has_def / list_defs / get_def use     *)
(* Template.module.                                                        *)
(*                                                                         *)
(* The property is stated by the invariants PathIndependence, OwnSource,   *)
(* OwnCode, DefsAgree.  `last` is the observable result of the last call;  *)
(* a value is the source whose text / module / meaning was returned.       *)
(***************************************************************************)
EXTENDS Naturals, Sequences, FiniteSets, TLC
CONSTANTS Sources,      \* source ids
          MidU,         \* source -> module id derived from its URI (a tuple of strings; equal ids collide)
          MidF,         \* source -> module id derived from its file name
          MaxObj,       \* bound on Template objects ever constructed (model bound)
          MaxEpoch,     \* bound on process restarts (model bound)
          AllowCollect, \* whether Template objects are garbage collected in a history
          Namings       \* the ways of naming a template that occur in a history (see below)
VARIABLES obj,    \* sequence of Template objects: [src, kind, name, alive]
          reg,    \* ModuleInfo._modules: set of [key, info]; info = index of the creating object
          disk,   \* <<source, naming>> whose module file exists in the module directory (the path is
                  \* module_directory + the URI, or + the file name when no URI is given)
          epoch, last
vars == <<obj, reg, disk, epoch, last>>

Key(k, n, i) == [k |-> k, n |-> n, i |-> i]
ModKey(name) == Key("mod", name, 0)       \* module.__name__ = module_id
MemKey(i)    == Key("mem", <<>>, i)       \* "memory:" + hex(id(template)): unique per live object
WrapKey(i)   == Key("wrap", <<>>, i)      \* the name a module was imported under by the caller
FileKey(s, nm) == Key("file", <<s, nm>>, 0)  \* absolute module file name (from the unsanitised URI / file name)
Has(k) == \E e \in reg : e.key = k
Get(k) == (CHOOSE e \in reg : e.key = k).info
Alive == {i \in 1..Len(obj) : obj[i].alive}

Init == obj = <<>> /\ reg = {} /\ disk = {} /\ epoch = 0 /\ last = [op |-> "init"]

\* ModuleInfo.__init__: self._modules[module.__name__] = template._mmarker = self; and [module_filename]
New(s, kind, naming, name, keys, how) ==
  LET n == Len(obj) + 1 IN
  /\ Len(obj) < MaxObj
  /\ obj' = Append(obj, [src |-> s, kind |-> kind, name |-> name, alive |-> TRUE])
  /\ reg' = {e \in reg : e.key \notin keys} \cup {[key |-> k, info |-> n] : k \in keys}
  /\ last' = [op |-> "construct", kind |-> kind, naming |-> naming, src |-> s, t |-> n, how |-> how]
\* How a template is named.  "anon": a text without URI; "fn": a file name only; otherwise a URI, in one of three
\* SPELLINGS that denote the same file (p: "x.html", s: "/x.html", d: "./x.html") and, for module files, one of three
\* module locations (uri*: a module_directory; ruri*: another module_directory; curi*: a modulename_callable keyed
\* by the file).  Template.__init__: module_id = the URI as spelled with non-word characters replaced (so the
\* spellings have different module names), module path = module_directory + the NORMALISED URI (so the spellings
\* share one module file).
UriNamings == {"uri", "uri1", "uri2", "ruri", "ruri1", "ruri2", "curi", "curi1", "curi2"}
Spell(nm) == IF nm \in {"uri", "ruri", "curi"} THEN "p" ELSE IF nm \in {"uri1", "ruri1", "curi1"} THEN "s" ELSE "d"
Fam(nm) == IF nm \in {"uri", "uri1", "uri2"} THEN "uri" ELSE IF nm \in {"ruri", "ruri1", "ruri2"} THEN "ruri"
           ELSE IF nm \in {"curi", "curi1", "curi2"} THEN "curi" ELSE nm
InMemory == {"uri", "uri1", "uri2", "fn", "anon"}      \* namings of templates without module file
OnDisk == UriNamings \cup {"fn"}
Named(s, naming, n) == IF naming \in UriNamings THEN ModKey(MidU[s] \o <<Spell(naming)>>)
                       ELSE IF naming = "fn" THEN ModKey(MidF[s]) ELSE MemKey(n)

(* ---------------- construction paths ---------------- *)
FromString(s, naming) ==      \* Template(text[, uri=...])
  /\ naming \in InMemory \ {"fn"}
  /\ LET k == Named(s, naming, Len(obj) + 1) IN New(s, "string", naming, k, {k}, "compiled")
  /\ UNCHANGED <<disk, epoch>>
FromFile(s, naming) ==        \* Template(filename=...[, uri=...]), compiled in memory
  /\ naming \in InMemory \ {"anon"}
  /\ LET k == Named(s, naming, 0) IN New(s, "file", naming, k, {k}, "compiled")
  /\ UNCHANGED <<disk, epoch>>
ToModuleDir(s, naming) ==     \* Template(filename=, module_directory=): no module file yet -> generate, write, import
  /\ naming \in OnDisk /\ <<s, Fam(naming)>> \notin disk
  /\ LET k == Named(s, naming, 0) IN New(s, "moddir", naming, k, {k, FileKey(s, Fam(naming))}, "compiled")
  /\ disk' = disk \cup {<<s, Fam(naming)>>} /\ UNCHANGED epoch
ReloadModuleFile(s, naming) ==  \* the same call when the module file exists: imported, not regenerated
  /\ naming \in OnDisk /\ <<s, Fam(naming)>> \in disk      \* under whichever spelling the file was written
  /\ LET k == Named(s, naming, 0) IN New(s, "moddir", naming, k, {k, FileKey(s, Fam(naming))}, "modfile")
  /\ UNCHANGED <<disk, epoch>>
WrapModule(s, naming) ==      \* ModuleTemplate(module imported by the caller from the module file)
  /\ naming \in OnDisk /\ <<s, Fam(naming)>> \in disk
  /\ LET k == WrapKey(Len(obj) + 1) IN New(s, "wrap", naming, k, {k, FileKey(s, Fam(naming))}, "modfile")
  /\ UNCHANGED <<disk, epoch>>

\* ModuleTemplate given its sources instead of (or besides) file names (ModuleTemplate.__init__ -> ModuleInfo(module,
\* module_filename, self, template_filename, module_source, template_source, uri)):
\*   how = "wrapsrc": module_source= and template_source= (str or bytes), no file names;
\*   how = "wrapmix": module_filename= and template_source=  (the module text comes from the file, the template text is given)
WrapGiven(s, naming, kind) ==
  /\ kind \in {"wrapsrc", "wrapmix"} /\ naming \in OnDisk /\ <<s, Fam(naming)>> \in disk
  /\ LET k == WrapKey(Len(obj) + 1) IN
       New(s, kind, naming, k, IF kind = "wrapmix" THEN {k, FileKey(s, Fam(naming))} ELSE {k}, "modfile")
  /\ UNCHANGED <<disk, epoch>>

(* ---------------- environment ---------------- *)
\* the last reference to a Template goes away: its ModuleInfo dies with it, and with that every
\* registry entry that points to it (WeakValueDictionary)
Collect(t) ==
  /\ AllowCollect /\ t \in Alive
  /\ obj' = [obj EXCEPT ![t].alive = FALSE]
  /\ reg' = {e \in reg : e.info # t}
  /\ last' = [op |-> "collect", t |-> t] /\ UNCHANGED <<disk, epoch>>
NewProcess ==
  /\ epoch < MaxEpoch /\ epoch' = epoch + 1
  /\ obj' = [i \in 1..Len(obj) |-> [obj[i] EXCEPT !.alive = FALSE]] /\ reg' = {}
  /\ last' = [op |-> "newprocess"] /\ UNCHANGED disk

(* ---------------- queries ---------------- *)
Methods == {"render", "render_unicode", "render_context", "cmdline", "get_def"}
Render(t, m) ==     \* runtime._render(template, template.callable_, ...): the template's own module
  /\ t \in Alive /\ m \in Methods
  /\ last' = [op |-> "render", t |-> t, m |-> m, val |-> obj[t].src] /\ UNCHANGED <<obj, reg, disk, epoch>>
\* _get_module_info_from_callable(self.callable_): ModuleInfo._modules[callable_.__globals__["__name__"]]
Info(t) == IF Has(obj[t].name) THEN obj[Get(obj[t].name)].src ELSE "KeyError"
\* Besides WHOSE text / module comes back there is a ground truth for WHAT comes back, per path (ModuleInfo.source /
\* ModuleInfo.code): the template text is the text given (a string template) or the content of the template file; the
\* generated module is the text of the MODULE FILE when the module lives in one (util.read_python_file: the whole file,
\* its coding line included), else the source the compiler produced for this object.
SourceBacking(t) == IF obj[t].kind \in {"string", "wrapsrc", "wrapmix"} THEN "given" ELSE "file"
CodeBacking(t) == IF obj[t].kind \in {"moddir", "wrap", "wrapmix"} THEN "modfile"
                  ELSE IF obj[t].kind = "wrapsrc" THEN "given" ELSE "memory"
Source(t) == /\ t \in Alive /\ last' = [op |-> "source", t |-> t, val |-> Info(t), backing |-> SourceBacking(t)]
             /\ UNCHANGED <<obj, reg, disk, epoch>>
Code(t)   == /\ t \in Alive /\ last' = [op |-> "code", t |-> t, val |-> Info(t), backing |-> CodeBacking(t)]
             /\ UNCHANGED <<obj, reg, disk, epoch>>
Defs(t)   == /\ t \in Alive /\ last' = [op |-> "defs", t |-> t, val |-> obj[t].src] /\ UNCHANGED <<obj, reg, disk, epoch>>

\* (object quantifiers range over the constant 1..MaxObj so that TLC reports coverage per action)
Next == \/ \E s \in Sources, nm \in Namings : FromString(s, nm)
        \/ \E s \in Sources, nm \in Namings : FromFile(s, nm)
        \/ \E s \in Sources, nm \in Namings : ToModuleDir(s, nm)
        \/ \E s \in Sources, nm \in Namings : ReloadModuleFile(s, nm)
        \/ \E s \in Sources, nm \in Namings : WrapModule(s, nm)
        \/ \E s \in Sources, nm \in Namings, k \in {"wrapsrc", "wrapmix"} : WrapGiven(s, nm, k)
        \/ \E t \in 1..MaxObj : Collect(t)
        \/ \E t \in 1..MaxObj : Source(t)
        \/ \E t \in 1..MaxObj : Code(t)
        \/ \E t \in 1..MaxObj : Defs(t)
        \/ \E t \in 1..MaxObj, m \in Methods : Render(t, m)
        \/ NewProcess
Spec == Init /\ [][Next]_vars

(* ---------------- the property (C08) ---------------- *)
PathIndependence == last.op = "render" => last.val = obj[last.t].src
OwnSource == last.op = "source" => last.val = obj[last.t].src
OwnCode   == last.op = "code" => last.val = obj[last.t].src
DefsAgree == last.op = "defs" => last.val = obj[last.t].src
\* a module file is generated once and found by every later construction, in this and in later processes
ModuleFileReused == (last.op = "construct" /\ last.kind \in {"moddir", "wrap", "wrapsrc", "wrapmix"}) => <<last.src, Fam(last.naming)>> \in disk
RegistryWeak == \A e \in reg : e.info \in Alive
=============================================================================
