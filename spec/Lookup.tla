------------------------------- MODULE Lookup -------------------------------
(***************************************************************************)
(* TemplateLookup over time (property C14): directories, file mtimes, the  *)
(* URI -> Template collection, the LRU (util.LRUCache), put_string,        *)
(* put_template, has_template, failing compilations.                       *)
(*                                                                         *)
(* The model is written in the shape of mako/lookup.py: one action per     *)
(* public call, composed of the steps the code takes (collection read with *)
(* stamp refresh, _check, pop, directory search, _load with store and      *)
(* _manage_size).  Time is in ticks, TPS ticks per second; file mtimes are  *)
(* whole seconds (st_mtime as the code reads it through stat[ST_MTIME]),    *)
(* compile stamps (module._modified_time) are ticks.                       *)
(*                                                                         *)
(* `last` is the observable result of the last call; `pinned` is a ghost   *)
(* variable remembering which object put_string/put_template placed under  *)
(* a URI (used only to state PutServed).                                   *)
(***************************************************************************)
EXTENDS Naturals, Sequences, FiniteSets, TLC
CONSTANTS NDirs,      \* number of configured directories, searched in order 1..NDirs
          Uris,       \* the URIs used
          MaxVer,     \* bound on file versions written (model bound only)
          MaxTick,    \* bound on the clock (model bound only)
          Size,       \* collection_size; 0 = unlimited (-1 in the API)
          FsChecks,   \* filesystem_checks
          TPS,        \* clock ticks per second
          AllowPut,   \* whether put_string / put_template occur
          ModDir      \* whether the lookup has a module_directory
Unlimited == 0
Dirs == 1..NDirs
Absent == [st |-> "absent", ver |-> 0, mt |-> 0]
None == [kind |-> "none"]
VARIABLES now, fs, coll, stamp, ver, nobj, built, last, pinned, mods, alias
vars == <<now, fs, coll, stamp, ver, nobj, built, last, pinned, mods, alias>>

Sec(t) == t \div TPS
Cached(c) == {u \in Uris : c[u].kind # "none"}
Init == /\ now = 0 /\ fs = [d \in Dirs |-> [u \in Uris |-> Absent]]
        /\ coll = [u \in Uris |-> None] /\ stamp = [u \in Uris |-> 0]
        /\ ver = 0 /\ nobj = 0 /\ built = 0 /\ last = [op |-> "init"]
        /\ pinned = [u \in Uris |-> 0]
        /\ mods = [u \in Uris |-> None]      \* module files: the path depends on the URI only
        /\ alias = [u \in Uris |-> None]     \* ghost: the file a put_template(u, file-backed template) entry stands for

(* ---------------- environment ---------------- *)
Tick == /\ now < MaxTick /\ now' = now + 1 /\ last' = [op |-> "tick"]
        /\ UNCHANGED <<fs, coll, stamp, ver, nobj, built, pinned, mods, alias>>
\* create or overwrite file u in directory d; mtime = current whole second; kind "ok", "broken" (a template
\* that does not compile) or "unreadable" (stat works, reading raises OSError)
FileKinds == {"ok", "broken", "unreadable"}
WriteFile(d, u, kind) ==
        /\ ver < MaxVer /\ ver' = ver + 1
        /\ fs' = [fs EXCEPT ![d][u] = [st |-> kind, ver |-> ver + 1, mt |-> Sec(now)]]
        /\ last' = [op |-> "write", d |-> d, u |-> u, kind |-> kind]
        /\ UNCHANGED <<now, coll, stamp, nobj, built, pinned, mods, alias>>
DeleteFile(d, u) ==
        /\ fs[d][u].st # "absent" /\ fs' = [fs EXCEPT ![d][u] = Absent]
        /\ last' = [op |-> "delete", d |-> d, u |-> u]
        /\ UNCHANGED <<now, coll, stamp, ver, nobj, built, pinned, mods, alias>>

(* ---------------- the LRU (util.LRUCache) ---------------- *)
\* Only the ORDER of LRU timestamps matters, so stamps are kept as ranks 1..n among the cached URIs
\* (0 for an uncached URI or an unlimited collection, which is a plain dict); a fresh timestamp is Top.
Top == Cardinality(Uris) + 1
Norm(c, s) == [u \in Uris |-> IF Size = Unlimited \/ c[u].kind = "none" THEN 0
                              ELSE Cardinality({v \in Cached(c) : s[v] <= s[u]})]
\* _manage_size after a store: when more than Size + Size*0.5 entries, keep the Size most
\* recently stamped ones
ManageSize(c, s) ==
  IF Size = Unlimited \/ 2 * Cardinality(Cached(c)) <= 3 * Size THEN c
  ELSE LET cs == Cached(c)
           keep == CHOOSE k \in SUBSET cs : Cardinality(k) = Size /\ \A a \in k, b \in cs \ k : s[a] > s[b]
       IN [u \in Uris |-> IF u \in keep THEN c[u] ELSE None]
\* __getitem__ refreshes the stamp on every hit
Touch(u) == [stamp EXCEPT ![u] = Top]
\* __setitem__: a new key gets a fresh stamp, an existing key keeps its stamp
StoreStamp(u) == IF coll[u].kind = "none" THEN Touch(u) ELSE stamp

(* ---------------- get_template ---------------- *)
FirstDir(u) == IF \E d \in Dirs : fs[d][u].st # "absent"
               THEN CHOOSE d \in Dirs : fs[d][u].st # "absent" /\ \A e \in Dirs : e < d => fs[e][u].st = "absent"
               ELSE 0
\* _load: construct from directory d; c0/s0 = collection and stamps when _load starts.
\* With a module directory (Template._compile_from_file) an existing module file at least as new as
\* the source is imported instead of compiling -- whatever the source says by now.
Reuse(u, d, fn) == ModDir /\ mods[u].kind # "none" /\ mods[u].mt >= fs[d][fn].mt
\* fn = the name of the source file in directory d (the URI itself, except for an entry that was placed
\* with put_template under another URI than its own)
Load(u, d, fn, c0, s0, op, pfx) ==
  IF ~Reuse(u, d, fn) /\ fs[d][fn].st \in {"broken", "unreadable"}
  THEN /\ coll' = c0 /\ stamp' = Norm(c0, s0)        \* except: self._collection.pop(uri, None); raise
       \* a source that cannot be read raises OSError: raw on a first load, but inside _check's try block on a
       \* reload, where every OSError becomes TemplateLookupException
       /\ last' = [op |-> op, u |-> u,
                   res |-> IF fs[d][fn].st = "broken" THEN "compile_error" ELSE IF pfx = "reload" THEN "lookup_exc" ELSE "os_error",
                   br |-> pfx \o "-" \o fs[d][fn].st]
       /\ UNCHANGED <<nobj, built, mods>>
       /\ alias' = [alias EXCEPT ![u] = None]
  ELSE LET m  == IF Reuse(u, d, fn) THEN mods[u]
                 ELSE [kind |-> "mod", ver |-> fs[d][fn].ver, mt |-> Sec(now), ct |-> now, dir |-> d, fn |-> fn]
           t  == [kind |-> "file", dir |-> d, fn |-> fn, ver |-> m.ver, ct |-> m.ct, obj |-> nobj + 1, gdir |-> m.dir, gfn |-> m.fn]
           s1 == [s0 EXCEPT ![u] = Top]
           c1 == ManageSize([c0 EXCEPT ![u] = t], s1)
       IN /\ coll' = c1 /\ stamp' = Norm(c1, s1)
          /\ nobj' = nobj + 1 /\ built' = built + 1
          /\ mods' = (IF ModDir THEN [mods EXCEPT ![u] = m] ELSE mods)
          /\ last' = [op |-> op, u |-> u, res |-> "tmpl", obj |-> nobj + 1, ver |-> m.ver,
                       br |-> IF Reuse(u, d, fn) THEN pfx \o "-reuse" ELSE pfx]
          /\ UNCHANGED alias
GetCore(u, op) ==
  IF coll[u].kind # "none"
  THEN LET t == coll[u]
           s1 == Touch(u)
       IN IF ~FsChecks \/ t.kind # "file"            \* no checks, or template.filename is None
          THEN /\ last' = [op |-> op, u |-> u, res |-> "tmpl", obj |-> t.obj, ver |-> t.ver, br |-> "hit-nocheck"]
               /\ stamp' = Norm(coll, s1) /\ UNCHANGED <<coll, nobj, built, mods, alias>>
          ELSE IF fs[t.dir][t.fn].st = "absent"            \* os.stat fails: evict, TemplateLookupException
               THEN /\ coll' = [coll EXCEPT ![u] = None] /\ stamp' = Norm(coll', s1)
                    /\ last' = [op |-> op, u |-> u, res |-> "lookup_exc", br |-> "vanished"] /\ UNCHANGED <<nobj, built, mods>>
                    /\ alias' = [alias EXCEPT ![u] = None]
               ELSE IF t.ct >= TPS * fs[t.dir][t.fn].mt   \* module._modified_time >= st_mtime
                    THEN /\ last' = [op |-> op, u |-> u, res |-> "tmpl", obj |-> t.obj, ver |-> t.ver, br |-> "hit"]
                         /\ stamp' = Norm(coll, s1) /\ UNCHANGED <<coll, nobj, built, mods, alias>>
                    ELSE Load(u, t.dir, t.fn, [coll EXCEPT ![u] = None], s1, op, "reload")   \* pop, reload from the SAME file, under the SAME uri
  ELSE IF FirstDir(u) = 0
       THEN /\ last' = [op |-> op, u |-> u, res |-> "toplevel_exc", br |-> "miss"] /\ UNCHANGED <<coll, stamp, nobj, built, mods, alias>>
       ELSE Load(u, FirstDir(u), u, coll, stamp, op, "load")
Get(u) == GetCore(u, "get") /\ UNCHANGED <<now, fs, ver, pinned>>
Has(u) == GetCore(u, "has") /\ UNCHANGED <<now, fs, ver, pinned>>     \* has_template = get_template, result reduced to a boolean
\* put_string (byLookup = TRUE: the Template is constructed by the lookup) and put_template
Put(u, byLookup) ==
  /\ AllowPut /\ ver < MaxVer /\ ver' = ver + 1
  /\ LET t == [kind |-> "string", dir |-> 0, ver |-> ver + 1, ct |-> now, obj |-> nobj + 1]
         s1 == StoreStamp(u)
         c1 == ManageSize([coll EXCEPT ![u] = t], s1)
     IN /\ coll' = c1 /\ stamp' = Norm(c1, s1)
        /\ nobj' = nobj + 1 /\ built' = (IF byLookup THEN built + 1 ELSE built)
        /\ last' = [op |-> IF byLookup THEN "put" ELSE "puttmpl", u |-> u, obj |-> nobj + 1]
        /\ pinned' = [pinned EXCEPT ![u] = nobj + 1] /\ alias' = [alias EXCEPT ![u] = None]
  /\ UNCHANGED <<now, fs, mods>>
\* put_template(u, T) where T = Template(filename = <directory d>/v, uri = v) was made by the application:
\* a file-backed entry whose own uri differs from the one it is registered under
PutFile(u, d, v) ==
  /\ AllowPut /\ fs[d][v].st = "ok" /\ ~ModDir
  /\ LET t == [kind |-> "file", dir |-> d, fn |-> v, ver |-> fs[d][v].ver, ct |-> now, obj |-> nobj + 1, gdir |-> d, gfn |-> v]
         s1 == StoreStamp(u)
         c1 == ManageSize([coll EXCEPT ![u] = t], s1)
     IN /\ coll' = c1 /\ stamp' = Norm(c1, s1) /\ nobj' = nobj + 1
        /\ last' = [op |-> "putfile", u |-> u, d |-> d, v |-> v, obj |-> nobj + 1]
        /\ pinned' = [pinned EXCEPT ![u] = 0] /\ alias' = [alias EXCEPT ![u] = [kind |-> "alias", d |-> d, fn |-> v]]
  /\ UNCHANGED <<now, fs, mods, built, ver>>

Next == \/ Tick
        \/ \E d \in Dirs, u \in Uris : (\E k \in FileKinds : WriteFile(d, u, k)) \/ DeleteFile(d, u)
        \/ \E u \in Uris : Get(u) \/ Has(u) \/ Put(u, TRUE) \/ Put(u, FALSE)
        \/ \E u, v \in Uris, d \in Dirs : PutFile(u, d, v)
Spec == Init /\ [][Next]_vars

(* ---------------- the property (C14) ---------------- *)
IsGet == last.op \in {"get", "has"}
\* freshness: if the answer is the cached file template and its file is at least one whole second
\* newer than the compile moment, the answer carries the current content
Fresh == (IsGet /\ last.res = "tmpl" /\ FsChecks /\ coll[last.u].kind = "file" /\ coll[last.u].obj = last.obj) =>
           LET f == fs[coll[last.u].dir][coll[last.u].fn] IN
             (f.st = "ok" /\ TPS * f.mt >= coll[last.u].ct + TPS) => last.ver = f.ver
SizeBound == Size = Unlimited \/ 2 * Cardinality(Cached(coll)) <= 3 * Size
\* while nothing on disk is newer than the cached version, the very same object comes back, no recompilation
StableIdentity == [][\A u \in Uris :
      (IsGet' /\ last'.u = u /\ coll[u].kind = "file" /\ FsChecks /\ fs[coll[u].dir][coll[u].fn].st # "absent"
        /\ coll[u].ct >= TPS * fs[coll[u].dir][coll[u].fn].mt)
      => (last'.res = "tmpl" /\ last'.obj = coll[u].obj /\ built' = built)]_vars
FirstDirWins == [][\A u \in Uris :
      (IsGet' /\ last'.u = u /\ coll[u].kind = "none" /\ FirstDir(u) # 0 /\ fs[FirstDir(u)][u].st = "ok"
        /\ ~Reuse(u, FirstDir(u), u))
      => (last'.res = "tmpl" /\ last'.ver = fs[FirstDir(u)][u].ver)]_vars
\* ... and whatever is served for a URI was generated from the file it is served for (a module file
\* that is reused must stem from that very source file)
ServedFromOwnFile == \A u \in Uris : coll[u].kind = "file" => (coll[u].gdir = coll[u].dir /\ coll[u].gfn = coll[u].fn)
MissRaisesTopLevel == [][\A u \in Uris :
      (IsGet' /\ last'.u = u /\ coll[u].kind = "none" /\ FirstDir(u) = 0) => last'.res = "toplevel_exc"]_vars
VanishedRaisesLookup == [][\A u \in Uris :
      (IsGet' /\ last'.u = u /\ FsChecks /\ coll[u].kind = "file" /\ fs[coll[u].dir][coll[u].fn].st = "absent")
      => (last'.res = "lookup_exc" /\ coll'[u].kind = "none")]_vars
NoChecksSticky == [][\A u \in Uris :
      (~FsChecks /\ IsGet' /\ last'.u = u /\ coll[u].kind # "none") => (last'.res = "tmpl" /\ last'.obj = coll[u].obj)]_vars
\* a failed compilation leaves the lookup usable: the broken URI is not cached, nothing else changes
RecoverAfterFailure == [][(IsGet' /\ last'.res \in {"compile_error", "os_error"}) =>
      (coll'[last'.u].kind = "none" /\ \A v \in Uris \ {last'.u} : coll'[v] = coll[v])]_vars
\* eviction never changes what a lookup returns: a miss caused by eviction loads exactly what a first
\* request would load (FirstDirWins covers it because an evicted URI is simply an uncached one), and
\* put_string / put_template entries are served under their URI -- for ever:
PutServed == (IsGet /\ pinned[last.u] # 0) => (last.res = "tmpl" /\ last.obj = pinned[last.u])
\* ... including a file-backed template registered under another URI: as long as its file is there
PutFileServed == (IsGet /\ alias[last.u].kind # "none" /\ fs[alias[last.u].d][alias[last.u].fn].st # "absent") => last.res \in {"tmpl", "compile_error", "os_error", "lookup_exc"}
\* Witnesses: state predicates that MUST be reachable; the harness asks TLC for a behaviour reaching each
\* (as a counterexample to its negation) and replays that behaviour on the real TemplateLookup, so that every
\* branch of get_template is exercised by a TLC-generated behaviour and not only by random simulation.
Branches == {"hit", "hit-nocheck", "vanished", "reload", "reload-reuse", "reload-broken", "reload-unreadable", "miss", "load", "load-reuse", "load-broken", "load-unreadable"}
WBranch(b) == IsGet /\ last.br = b
WAliasBranch(b) == IsGet /\ last.br = b /\ alias[last.u].kind # "none"
WEvicted == \E u \in Uris : coll[u].kind = "none" /\ stamp[u] = 0 /\ Cardinality(Cached(coll)) = Size /\ last.op \in {"get", "has", "put", "puttmpl", "putfile"} /\ last.u # u /\ pinned[u] = 0 /\ built >= Size + 1
View == <<now, fs, coll, stamp, ver, last, pinned, mods, alias>>
=============================================================================
