---- MODULE MC_Lookup ----
EXTENDS Lookup
CONSTANT Depth, WB
Bound == TLCGet("level") <= Depth
\* negated witnesses (see Lookup.tla): TLC's counterexample is the behaviour to replay
NotWBranch == ~WBranch(WB)
NotWAliasBranch == ~WAliasBranch(WB)
NotWEvicted == ~WEvicted
====
