---- MODULE MC_Lookup ----
EXTENDS Lookup
CONSTANT Depth
Bound == TLCGet("level") <= Depth
====
