----------------------------- MODULE MC_Cache -----------------------------
(* Bounded instances of Cache.tla.  The worlds (sets of templates sharing a backend) are TLA+      *)
(* literals in module CacheProgs, which harness/c17.py regenerates in the scratch directory of     *)
(* every TLC run (the copy under spec/ is only a sample so that the module parses on its own);     *)
(* Histories are bounded by Depth.                         *)
EXTENDS Cache
CONSTANT Depth
Bound == TLCGet("level") <= Depth
\* (simulation only) a render that raises ends the history: let it happen late, so that histories stay long
RaiseLate == (last'.op = "raised") => TLCGet("level") >= 14
=============================================================================
