------------------------------- MODULE Extract -------------------------------
(***************************************************************************)
(* Message extraction (property C20): mako/ext/extract.py                  *)
(* MessageExtractor.extract_nodes as the state machine it is, over a       *)
(* sequence of template items, with line numbers from the layout calculus  *)
(* (Layout.tla).                                                           *)
(*                                                                         *)
(* Catalog entry (XCat): geometry `w`, `ls` (must begin a line) and        *)
(*   kind  "tc"  a ## line starting with the configured tag                *)
(*         "uc"  any other ## line                                         *)
(*         "blank" whitespace-only text, "text" other text                 *)
(*         "doc" a <%doc> section, "decoy" text / <%text> holding calls    *)
(*         "ctlend" a control-line end (% endif)                           *)
(*         "cons" a Python-bearing construct                               *)
(*   msgs  the gettext-style calls written in the entry: off = physical    *)
(*         line of the entry holding the call, fn, m = message key, own =  *)
(*         TRUE when the call is in the construct's own Python (FALSE: in  *)
(*         a child construct that begins on a later line, e.g. the body of *)
(*         a def).  For kinds other than "cons" these are decoys.          *)
(*                                                                         *)
(* The machine (variables tcs, intc, out) follows the loop of              *)
(* extract_nodes: `tcs` = translator_comments as (line, comment) pairs,    *)
(* `intc` = in_translator_comments, and the line arithmetic of             *)
(* BabelMakoExtractor.process_python (the code is parsed behind one added  *)
(* newline, so node.lineno - 1 is passed and the Python line is added).    *)
(* It is the INTENDED machine: a <%doc> section or text that is not blank  *)
(* ends a translator-comment block (in the code it does not: finding #20). *)
(*                                                                         *)
(* The property is stated separately, from the planted truth:              *)
(*   EachCallOnceAtItsLine  every call of a "cons" entry is reported once, *)
(*                          with the physical line it is written on        *)
(*   NothingFromDecoys      nothing else is reported                       *)
(*   CommentsAttachExactly  a message carries exactly the comments of the  *)
(*       tagged block whose last ## line is the line before the line on    *)
(*       which its construct begins (Block(t,i)), and only if the call is  *)
(*       the construct's own                                               *)
(* Not generated, because the property is silent there (constraint Spec-   *)
(* ified): blank lines between two ## lines; a message construct that     *)
(* does not begin its line, on the line right after a ## line.             *)
(***************************************************************************)
EXTENDS Naturals, Sequences, FiniteSets, TLC, Json, ExtractCat, Layout

CONSTANTS Pre,       \* indices of entries that may stand before the last construct
          Last,      \* indices of the constructs placed last
          MaxPre,    \* at most this many entries before the last construct
          NLKinds,
          Decls,     \* how the source encoding is declared: "magic" (## -*- coding: X -*- first line only),
                     \* "option" (the extractor's encoding option only), "both", "neither" (UTF-8 / ASCII source)
          Encs,      \* codecs: "ascii", "utf-8", "cp1251", "koi8-r", "latin-1", "iso-8859-15"; "any" = drawn by the harness
          MsgClasses,\* "ascii" | "nonascii" (characters of the codec's repertoire) | "any"
          Cfgs,      \* configurations of the extractor: sets of comment tags ("A", "B"); {} = no tag configured
          MaxStages, \* at most this many Configure steps over ONE extractor object (the first is its construction)
          Magic      \* catalog index of the magic-comment line (an untagged ## line that must be line 1)
XCat == XCatDef

VARIABLES tpl, nlk, src, cfg, hist, phase, i, tcs, intc, out
vars == <<tpl, nlk, src, cfg, hist, phase, i, tcs, intc, out>>

LineOf(t, n) == L_LineOf(XCat, t, n)
ColOf(t, n)  == L_ColOf(XCat, t, n)
\* The extractor's configuration is STATE (`cfg` = the comment tags configured NOW; `hist` = every configuration
\* the one extractor object has had, oldest first: constructed with hist[1], then update_config ...).  A ## line
\* counts as tagged iff its tag (catalog field `tag`: "A", "B" or "none") is configured at the moment of THIS
\* extraction: what an extraction reports depends on cfg only, never on earlier elements of hist.
Kind(e) == LET k == XCat[e].kind IN
           IF k \in {"tc", "uc"} THEN (IF XCat[e].tag \in cfg THEN "tc" ELSE "uc") ELSE k
IsCmt(e) == Kind(e) \in {"tc", "uc"}
MayFollow(t, e) == XCat[e].ls => L_AtLineStart(XCat, t)
HasOwn(e) == \E n \in 1..Len(XCat[e].msgs) : XCat[e].msgs[n].own

\* where the property says nothing: not generated
RECURSIVE BlanksAfterCmt(_, _)      \* t[1..n] ends with >= 1 blank entries standing right after a ## line
BlanksAfterCmt(t, n) == n >= 2 /\ Kind(t[n]) = "blank" /\ (IsCmt(t[n - 1]) \/ BlanksAfterCmt(t, n - 1))
Specified(t, e) ==
  LET n == Len(t) IN
  /\ ~(IsCmt(e) /\ BlanksAfterCmt(t, n))
  /\ ~(Kind(e) = "cons" /\ Len(XCat[e].msgs) > 0 /\ ~L_AtLineStart(XCat, t)
       /\ \E j \in 1..n : IsCmt(t[j]) /\ LineOf(t, j) + 1 = LineOf(Append(t, e), n + 1))

(* ----------------------------- the property --------------------------- *)
\* the ## lines directly above entry n, nearest first (entries n-1, n-2, ...)
RECURSIVE RunAbove(_, _)
RunAbove(t, n) == IF n > 1 /\ IsCmt(t[n - 1]) THEN <<n - 1>> \o RunAbove(t, n - 1) ELSE <<>>
\* the tagged block ending on the line above entry n: from the first tagged line of the run on
Block(t, n) ==
  LET run == RunAbove(t, n)                        \* positions, nearest first
      tagged == {j \in 1..Len(run) : Kind(t[run[j]]) = "tc"}
  IN IF tagged = {} \/ ColOf(t, n) # 1 THEN <<>>
     ELSE LET far == CHOOSE j \in tagged : \A k \in tagged : k <= j
          IN [k \in 1..far |-> run[far + 1 - k]]     \* positions, top to bottom
Planted(t) == {p \in (1..Len(t)) \X (1..4) : Kind(t[p[1]]) = "cons" /\ p[2] <= Len(XCat[t[p[1]]].msgs)}

(* ----------------------------- the machine ---------------------------- *)
\* The declaration of the source encoding is part of the case.  A declaration is CORRECT when the bytes can be
\* decoded as declared: "neither" only for UTF-8 / ASCII sources, ASCII sources only with ASCII messages.  The
\* magic comment is a ## line of its own and therefore line 1 of the template: everything after it moves down.
\* The property ("in any supported source encoding") makes `out` independent of src: nothing below reads it.
HasMagic(s) == s.decl \in {"magic", "both"}
Sources == {s \in [decl : Decls, enc : Encs, mc : MsgClasses] :
              /\ (s.decl = "neither" => s.enc \in {"ascii", "utf-8", "any"})
              /\ (s.enc = "ascii" => s.mc \in {"ascii", "any"})}
NPre == Len(tpl) - (IF HasMagic(src) THEN 1 ELSE 0)
Init == /\ nlk \in NLKinds /\ phase = "build" /\ i = 1 /\ src \in Sources /\ cfg \in Cfgs /\ hist = <<cfg>>
        /\ tpl = (IF HasMagic(src) THEN <<Magic>> ELSE <<>>)
        /\ tcs = <<>> /\ intc = FALSE /\ out = <<>>
Add(e) == /\ phase = "build" /\ NPre < MaxPre /\ e \in Pre
          /\ MayFollow(tpl, e) /\ Specified(tpl, e)
          /\ tpl' = Append(tpl, e) /\ UNCHANGED <<nlk, src, cfg, hist, phase, i, tcs, intc, out>>
AddLast(e) == /\ phase = "build" /\ e \in Last /\ MayFollow(tpl, e) /\ Specified(tpl, e)
              /\ tpl' = Append(tpl, e) /\ phase' = "run"
              /\ UNCHANGED <<nlk, src, cfg, hist, i, tcs, intc, out>>
\* BabelMakoExtractor.process_python: code_lineno + (lineno - 1), code_lineno = node.lineno - 1,
\* lineno = line inside "\n" + code
ReportedLine(nodeline, off) == (nodeline - 1) + ((1 + (off + 1)) - 1)
Messages(n, cm) ==
  LET e == tpl[n] ms == XCat[e].msgs IN
  [j \in 1..Len(ms) |-> [pos |-> n, j |-> j, line |-> ReportedLine(LineOf(tpl, n), ms[j].off),
                         fn |-> ms[j].fn, m |-> ms[j].m,
                         cm |-> IF ms[j].own THEN cm ELSE <<>>]]
Step ==
  /\ phase = "run" /\ i <= Len(tpl)
  /\ LET e == tpl[i]  L == LineOf(tpl, i)  k == Kind(e) IN
     CASE k = "blank" -> UNCHANGED <<tcs, intc, out>>      \* whitespace inside a block is skipped
       [] k = "tc" -> /\ tcs' = (IF intc THEN tcs ELSE <<>>) \o <<[line |-> L, pos |-> i]>>
                      /\ intc' = TRUE /\ UNCHANGED out
       [] k = "uc" -> /\ tcs' = (IF intc THEN Append(tcs, [line |-> L, pos |-> i]) ELSE tcs)
                      /\ UNCHANGED <<intc, out>>
       [] k \in {"text", "doc", "decoy", "ctlend"} ->       \* anything else ends the block
                      /\ tcs' = <<>> /\ intc' = FALSE /\ UNCHANGED out
       [] k = "cons" ->
            LET live == IF tcs # <<>> /\ tcs[Len(tcs)].line < L - 1 THEN <<>> ELSE tcs
                cm == [n \in 1..Len(live) |-> live[n].pos]
                ms == Messages(i, IF ColOf(tpl, i) = 1 THEN cm ELSE <<>>)
            IN /\ out' = out \o ms
               /\ tcs' = (IF HasOwn(e) THEN <<>> ELSE live)
               /\ intc' = FALSE
  /\ i' = i + 1 /\ UNCHANGED <<tpl, nlk, src, cfg, hist, phase>>
Finish == /\ phase = "run" /\ i > Len(tpl) /\ phase' = "done"
          /\ UNCHANGED <<tpl, nlk, src, cfg, hist, i, tcs, intc, out>>
Emit == /\ phase = "done" /\ PrintT(ToJson([seq |-> tpl, nl |-> nlk, src |-> src, hist |-> hist, out |-> out]))
        /\ phase' = "end" /\ UNCHANGED <<tpl, nlk, src, cfg, hist, i, tcs, intc, out>>
\* update_config on the same extractor object, then the template is extracted again
Configure(c) == /\ phase = "end" /\ Len(hist) < MaxStages /\ c \in Cfgs
                /\ cfg' = c /\ hist' = Append(hist, c)
                /\ phase' = "run" /\ i' = 1 /\ tcs' = <<>> /\ intc' = FALSE /\ out' = <<>>
                /\ UNCHANGED <<tpl, nlk, src>>
Next == (\E e \in Pre : Add(e)) \/ (\E e \in Last : AddLast(e)) \/ Step \/ Finish \/ Emit \/ (\E c \in Cfgs : Configure(c))
Spec == Init /\ [][Next]_vars

(* ----------------------------- invariants ----------------------------- *)
Done == phase \in {"done", "end"}
EachCallOnceAtItsLine ==
  Done => /\ \A p \in Planted(tpl) :
               /\ Cardinality({n \in 1..Len(out) : out[n].pos = p[1] /\ out[n].j = p[2]}) = 1
               /\ \A n \in 1..Len(out) : (out[n].pos = p[1] /\ out[n].j = p[2]) =>
                     /\ out[n].line = LineOf(tpl, p[1]) + XCat[tpl[p[1]]].msgs[p[2]].off
                     /\ out[n].m = XCat[tpl[p[1]]].msgs[p[2]].m
                     /\ out[n].fn = XCat[tpl[p[1]]].msgs[p[2]].fn
NothingFromDecoys ==
  Done => /\ Len(out) = Cardinality(Planted(tpl))
          /\ \A n \in 1..Len(out) : Kind(tpl[out[n].pos]) = "cons"
CommentsAttachExactly ==
  Done => \A n \in 1..Len(out) :
            out[n].cm = (IF XCat[tpl[out[n].pos]].msgs[out[n].j].own THEN Block(tpl, out[n].pos) ELSE <<>>)
=============================================================================
