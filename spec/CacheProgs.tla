---------------------------- MODULE CacheProgs ----------------------------
(* Sample worlds for Cache.tla (see its header for the format).  harness/c17.py overwrites this   *)
(* module in the scratch directory of each TLC run with the worlds of that run.                    *)
ProgsDef == <<
 [passctx |-> TRUE, tmpls |-> <<
   [uri |-> <<"a", "-", "b", ".", "html">>, targs |-> <<<<"type", "s:memory">>>>, bf |-> FALSE, en0 |-> TRUE, strict |-> FALSE, inh |-> 0, isbase |-> FALSE,
    page |-> [cached |-> FALSE, key |-> "static", pfx |-> "", args |-> <<<<"timeout", "s:7">>>>, sig |-> <<>>, kp |-> 0, reads |-> FALSE,
              items |-> <<[sec |-> 1, pos |-> <<"A">>, kw |-> <<>>, tm |-> 0, how |-> "call"]>>],
    secs |-> <<[name |-> "foo", kind |-> "def", cached |-> TRUE, key |-> "static", pfx |-> "",
                args |-> <<<<"timeout", "s:34">>>>, buf |-> FALSE, filt |-> FALSE,
                sig |-> <<[n |-> "x", k |-> "pos", d |-> ""]>>, kp |-> 0, reads |-> FALSE, items |-> <<>>]>>] >>] >>
=============================================================================
