------------------------------- MODULE EscapeInput -------------------------------
(***************************************************************************)
(* Input data of MC_Escape.tla / Trace_Escape.tla.  This file is only a    *)
(* placeholder (so that the specifications parse on their own):            *)
(* harness/c10.py writes the real one into TLC's scratch directory for     *)
(* every run -- the alphabet with the facts of every character (from       *)
(* CPython's html.entities / codecs / str), the names to enumerate over,   *)
(* the charsets, and (for Trace_Escape) the recorded cases.  A generated   *)
(* module rather than a JSON file because TLC evaluates plain constant     *)
(* definitions once, but re-reads an IOEnv/JsonDeserialize source on every *)
(* reference.                                                              *)
(***************************************************************************)
InAlphabet == << [n |-> "a", cp |-> 97, utf8 |-> <<97>>, ent |-> <<>>, ws |-> FALSE, enc |-> {"ascii", "utf-8"}],
                 [n |-> "&", cp |-> 38, utf8 |-> <<38>>, ent |-> <<"a", "m", "p">>, ws |-> FALSE, enc |-> {"ascii", "utf-8"}] >>
InGen == {"a", "&"}
InCharsets == {"ascii", "utf-8"}
InCases == << >>
InSessStrings == << <<"a", "&">> >>
=============================================================================
