------------------------------ MODULE ScopesCtx ------------------------------
(***************************************************************************)
(* The render context as an object (property C04, second and third         *)
(* sentence): template code never alters the context data seen by other    *)
(* scopes or by the caller of render; context.kwargs returns exactly the   *)
(* arguments given to render; reserved names can neither be passed to a    *)
(* render entry point nor be assigned in a template.                       *)
(*                                                                         *)
(* Mirrors mako/runtime.py: Context.__init__ (_data, _kwargs = copy),      *)
(* Context._set_with_template (reserved names at render), Context.kwargs   *)
(* (a copy per read), Context._copy/_locals (the child context a by-name   *)
(* def call receives), and mako/codegen.py: _Identifiers.__init__          *)
(* (reserved names declared in the template), visitCode (__M_locals).      *)
(*                                                                         *)
(* Dictionaries are objects on a heap (id -> contents) so that the model   *)
(* can say what aliasing would mean: the invariants speak about the        *)
(* contents of the two objects the context owns (dataId, kwId) whatever    *)
(* the template does with the objects handed to it.                        *)
(*                                                                         *)
(* Family = "reserved": one (entry point, enable_loop, argument names,     *)
(*   template-level assignment) per behaviour, no body steps.              *)
(* Family = "rebind": histories over the rebinding steps only (new object,  *)
(*   EQUAL new object, mutation in place, by-name def call written in the  *)
(*   body text / a call body / a control line / an anonymous block), with  *)
(*   and without <%page> arguments, explored deeper.                       *)
(* Family = "history": the body of a template performs up to Depth steps   *)
(*   (assignments, reads through the context from the body / a def reached *)
(*   through self / a def called by name, assignments inside defs, reads   *)
(*   of context.kwargs in three places, mutation of a dictionary that a    *)
(*   previous context.kwargs returned); every step records what the        *)
(*   template must observe.  The End step prints the whole history as one  *)
(*   JSON line; the harness renders it as a real template.                 *)
(***************************************************************************)
EXTENDS Naturals, Sequences, FiniteSets, TLC, Json
CONSTANTS Family, Depth

DataNames == {"x", "y"}
ReservedAll == {"context", "UNDEFINED", "STOP_RENDERING", "loop"}
Reserved(el) == IF el THEN ReservedAll ELSE ReservedAll \ {"loop"}
Entries == {"render", "render_unicode", "render_context", "get_def"}
AssignKinds == {"code", "code_in_def", "augassign", "import_as", "def_stmt", "for_target",
                "with_target", "except_target", "page_arg", "module_code"}
NoDecl == [kind |-> "none", name |-> "-"]
Absent == "-"
Dict == [DataNames \cup {"new"} -> STRING]
Empty == [n \in DataNames \cup {"new"} |-> Absent]
ArgDict(a) == [n \in DataNames \cup {"new"} |-> IF n \in a THEN "A_" \o n ELSE Absent]
Show(d) == {<<n, d[n]>> : n \in {m \in DOMAIN d : d[m] # Absent}}

VARIABLES enableLoop, entry, args, decl,   \* the configuration of the behaviour
          pc, heap, dataId, kwId,          \* context object: two dictionaries on the heap
          paged,                           \* whether x and y are <%page> arguments (they then start as body locals)
          locals,                          \* the body's <% %> assignments and page arguments (__M_locals)
          ob,                              \* the objects bound by the body: ob.objs[k] = [cls, mut] is object number k
                                           \* (identity k, equality class cls, mut in-place mutations so far);
                                           \* ob.idx[n] = number of the object local n holds (0: none of them)
          handed,                          \* id of the dictionary the last context.kwargs read returned (0: none)
          hist, outcome
vars == <<enableLoop, entry, args, decl, paged, pc, heap, dataId, kwId, locals, ob, handed, hist, outcome>>
cfgvars == <<enableLoop, entry, args, decl, paged>>
NoObjects == [objs |-> <<>>, idx |-> [n \in DataNames |-> 0]]
\* what a read of object k shows: its identity, its equality class, how often it was mutated in place
Tag(o, k) == "L" \o ToString(k) \o ":c" \o ToString(o.objs[k].cls) \o ":m" \o ToString(o.objs[k].mut)

Init ==
  /\ pc = "construct" /\ heap = <<>> /\ dataId = 0 /\ kwId = 0 /\ locals = Empty /\ handed = 0 /\ ob = NoObjects
  /\ hist = <<>> /\ outcome = "run"
  /\ IF Family = "reserved"
     THEN /\ enableLoop \in BOOLEAN /\ entry \in Entries
          /\ \E a \in SUBSET DataNames, rs \in {{}} \cup {{n} : n \in ReservedAll} : args = a \cup rs
          /\ decl \in {NoDecl} \cup [kind : AssignKinds, name : ReservedAll \cup {"x"}]
          /\ paged = FALSE
     ELSE /\ enableLoop = TRUE /\ entry = "render_context" /\ decl = NoDecl
          /\ IF Family = "history" THEN args \in SUBSET DataNames /\ paged = FALSE
             ELSE args \in {{}, {"x"}} /\ paged \in BOOLEAN        \* Family = "rebind"

\* Template(...) / get_template: the compiler refuses reserved names assigned in the template
Construct ==
  /\ pc = "construct"
  /\ IF decl.kind # "none" /\ decl.name \in Reserved(enableLoop)
     THEN outcome' = "NameConflictError@construct" /\ pc' = "end"
     ELSE outcome' = outcome /\ pc' = "enter"
  /\ UNCHANGED <<cfgvars, heap, dataId, kwId, locals, ob, handed, hist>>
\* render*(**args): Context(buffer, **args) then _set_with_template
Enter ==
  /\ pc = "enter"
  /\ IF args \cap Reserved(enableLoop) # {}
     THEN /\ outcome' = "NameConflictError@render" /\ pc' = "end"
          /\ UNCHANGED <<heap, dataId, kwId>>
     ELSE /\ heap' = <<ArgDict(args), ArgDict(args)>>      \* _data, and _kwargs = a copy
          /\ dataId' = 1 /\ kwId' = 2 /\ outcome' = outcome
          /\ pc' = IF Family = "reserved" THEN "finish" ELSE "body"
  \* <%page args="x=None, y=None"/>: render_body's arguments are body locals from the start; a render
  \* argument of the name is handed to it
  /\ locals' = IF paged /\ args \cap Reserved(enableLoop) = {}
               THEN [n \in DataNames \cup {"new"} |-> IF n = "new" THEN Absent ELSE IF n \in args THEN "A_" \o n ELSE "PNone"]
               ELSE locals
  /\ UNCHANGED <<cfgvars, ob, handed, hist>>

Step(op, n, obs) == /\ hist' = Append(hist, [op |-> op, n |-> n, obs |-> obs])
                    /\ UNCHANGED <<cfgvars, pc, dataId, kwId, outcome>>
Val(d, n) == IF d[n] = Absent THEN "NONE" ELSE d[n]
\* what a def called by name from the body gets as context data: a NEW dictionary, the body's
\* assignments over the context data (Context._locals)
ChildData == [n \in DataNames \cup {"new"} |-> IF locals[n] # Absent THEN locals[n] ELSE heap[dataId][n]]
InBody == pc = "body" /\ Len(hist) < Depth

\* <% n = <object> %> in the body: a local of render_body, recorded in __M_locals.  The object is NEW (a new
\* identity); it is either unequal to everything before (Assign) or EQUAL to the object n held (AssignEqual:
\* 1 -> 1.0, [] -> another []).  MutateLocal changes the held object in place: same identity, new content.
Bind(n, cls) == LET k == Len(ob.objs) + 1 IN
  /\ ob' = [objs |-> Append(ob.objs, [cls |-> IF cls = 0 THEN k ELSE cls, mut |-> 0]), idx |-> [ob.idx EXCEPT ![n] = k]]
  /\ locals' = [locals EXCEPT ![n] = "L" \o ToString(k)]
Assign(n) ==
  /\ InBody /\ Bind(n, 0) /\ Step("assign", n, Tag(ob', ob'.idx[n])) /\ UNCHANGED <<heap, handed>>
AssignEqual(n) ==
  /\ InBody /\ ob.idx[n] # 0 /\ Bind(n, ob.objs[ob.idx[n]].cls)
  /\ Step("assign_equal", n, Tag(ob', ob'.idx[n])) /\ UNCHANGED <<heap, handed>>
MutateLocal(n) ==
  /\ InBody /\ ob.idx[n] # 0
  /\ ob' = [ob EXCEPT !.objs[ob.idx[n]].mut = @ + 1]
  /\ Step("mutate_local", n, Tag(ob', ob.idx[n])) /\ UNCHANGED <<heap, locals, handed>>
\* what a by-name def sees for n: the CURRENT object of the body local (identity, not merely an equal one)
SeenByName(n) == IF ob.idx[n] # 0 THEN Tag(ob, ob.idx[n]) ELSE Val(ChildData, n)
ReadCtx(n) ==       \* context.get(n) in the body
  /\ InBody /\ Step("read_ctx", n, Val(heap[dataId], n)) /\ UNCHANGED <<heap, locals, ob, handed>>
ReadSelfDef(n) ==   \* a def reached through self. reads n: no body locals
  /\ InBody /\ Step("read_selfdef", n, Val(heap[dataId], n)) /\ UNCHANGED <<heap, locals, ob, handed>>
ReadByName(n, via) ==   \* a def called by name from the body reads n; the call stands in the body text or,
                        \* being the def's only reference, inside the body of a <%call> tag: same snapshot
  /\ InBody /\ heap' = Append(heap, ChildData)
  /\ Step(IF via = "text" THEN "read_byname" ELSE "read_byname_" \o via, n, SeenByName(n))
  /\ UNCHANGED <<locals, ob, handed>>
DefAssign(n, how) ==  \* a def assigns n (its own local) and shows it; nobody else is affected
  /\ InBody /\ heap' = (IF how = "byname" THEN Append(heap, ChildData) ELSE heap)
  /\ Step("defassign_" \o how, n, "D") /\ UNCHANGED <<locals, ob, handed>>
KwRead(where) ==    \* context.kwargs returns a new dictionary with the render arguments
  /\ InBody
  /\ LET h1 == IF where = "bynamedef" THEN Append(heap, ChildData) ELSE heap      \* child context shares _kwargs
     IN /\ heap' = Append(h1, heap[kwId]) /\ handed' = Len(h1) + 1
  /\ Step("kwread_" \o where, "-", Show(heap'[handed'])) /\ UNCHANGED <<locals, ob>>
KwMutate(n) ==      \* the template changes the dictionary it was handed
  /\ InBody /\ handed # 0
  /\ heap' = [heap EXCEPT ![handed][n] = "M"]
  /\ Step("kwmutate", n, "-") /\ UNCHANGED <<locals, ob, handed>>
Final == [ctx |-> Show(heap[dataId]), kw |-> Show(heap[kwId])]
End ==
  /\ pc \in {"body", "finish"} /\ (pc = "body" => Len(hist) = Depth)
  /\ pc' = "end" /\ outcome' = "ok"
  /\ hist' = Append(hist, [op |-> "end", n |-> "-", obs |-> Final])
  /\ UNCHANGED <<cfgvars, heap, dataId, kwId, locals, ob, handed>>
Report ==
  /\ pc = "end" /\ pc' = "printed"
  /\ PrintT(ToJson([entry |-> entry, enable_loop |-> enableLoop, args |-> args, decl |-> decl, paged |-> paged,
                    outcome |-> outcome, hist |-> hist]))
  /\ UNCHANGED <<cfgvars, heap, dataId, kwId, locals, ob, handed, hist, outcome>>
Vias == {"text", "callbody", "ctl", "anon"}       \* where in the body the by-name call is written
\* the rebind family keeps to the rebinding steps, on x (y is only assigned, as a second local)
Rebind == Family = "rebind"
NamesRebound == IF Rebind THEN {"x"} ELSE DataNames
NamesOther == IF Rebind THEN {} ELSE DataNames
BodyStep == \/ \E n \in DataNames : Assign(n)
            \/ \E n \in NamesRebound : AssignEqual(n) \/ MutateLocal(n)
            \/ \E n \in NamesRebound, via \in Vias : ReadByName(n, via)
            \/ \E n \in NamesOther : ReadCtx(n) \/ ReadSelfDef(n)
            \/ \E n \in NamesOther, how \in {"self", "byname"} : DefAssign(n, how)
            \/ \E w \in (IF Rebind THEN {} ELSE {"body", "selfdef", "bynamedef"}) : KwRead(w)
            \/ \E n \in (IF Rebind THEN {} ELSE DataNames \cup {"new"}) : KwMutate(n)
Next == Construct \/ Enter \/ BodyStep \/ End \/ Report
Spec == Init /\ [][Next]_vars

(* ------------------------------------------------------------------------ *)
Live == dataId # 0
\* the context data is what the caller passed, always
ContextImmutable == Live => heap[dataId] = ArgDict(args)
\* so is what context.kwargs will return next
KwargsExact == Live => heap[kwId] = ArgDict(args)
\* no object ever handed to template code is one of the two the context owns
NoAliasHandedOut == Live => (handed \notin {dataId, kwId})
\* every recorded kwargs observation is exactly the render arguments
KwObsExact == \A i \in 1..Len(hist) :
                 hist[i].op \in {"kwread_body", "kwread_selfdef", "kwread_bynamedef"} => hist[i].obs = Show(ArgDict(args))
\* reserved names: rejected exactly when reserved under the template's enable_loop setting
ReservedRejected ==
  pc \in {"end", "printed"} =>
     LET R == Reserved(enableLoop) IN
     /\ (decl.kind # "none" /\ decl.name \in R) <=> outcome = "NameConflictError@construct"
     /\ (~(decl.kind # "none" /\ decl.name \in R) /\ args \cap R # {}) <=> outcome = "NameConflictError@render"
     /\ (~(decl.kind # "none" /\ decl.name \in R) /\ args \cap R = {}) <=> outcome = "ok"
=============================================================================
