--------------------------- MODULE Trace_MakoLexer ---------------------------
(***************************************************************************)
(* Validates what the real mako.lexer.Lexer / Template did on long         *)
(* generated documents (property C01, quantifier (b)) against MakoLexer.   *)
(* Each trace holds the document as symbols, the parse tree the real lexer *)
(* produced (abstracted to symbols, normal form), the rendered output      *)
(* (abstracted to symbols) and the successive cursor offsets of the real   *)
(* cascade loop.  The trace spec re-lexes the document with the actions of *)
(* MakoLexer (LexNext, nothing is written twice), with Accounting /        *)
(* Iterations evaluated on every state, and judges the recording in the    *)
(* terminal state.  One initial state per trace; one JSON verdict          *)
(* {t, ok, i, clause} per terminal state (a nondeterministic document has  *)
(* several: it is accepted if one of them accepts).                        *)
(***************************************************************************)
EXTENDS MakoLexer, Json, IOUtils, TLCExt
Traces == JsonDeserialize(IOEnv.TRACE_FILE)
VARIABLES tr, verdict
tvars == <<lvars, tr, verdict>>
Rec == Traces[tr]
TInit == \E i \in 1..Len(Traces) : tr = i /\ LexInitR(Traces[i].syms, Traces[i].route) /\ verdict = "run"

NoSpace(s) == SelectSeq(s, LAMBDA x : x \notin Space)
\* spec node a against recorded node b
NodeEq(a, b) ==
  IF a.k # b.k THEN FALSE
  ELSE IF a.k = "endtag" THEN a.b = b.b
  ELSE IF a.k = "code" THEN a.p = b.p /\ a.l = b.l /\ a.m = b.m /\ NoSpace(a.b) = NoSpace(b.b)
  ELSE a = b
RECURSIVE FirstDiff(_, _, _)
FirstDiff(a, b, i) == IF i > Len(a) \/ i > Len(b) THEN (IF Len(a) = Len(b) THEN 0 ELSE i)
                      ELSE IF NodeEq(a[i], b[i]) THEN FirstDiff(a, b, i + 1) ELSE i
CursorOK(c) == \A i \in 1..(Len(c) - 1) : c[i] < c[i + 1]
\* [i, clause]: clause "" = accepted
Judge ==
  IF ~CursorOK(Rec.cursor) THEN [i |-> 0, clause |-> "cursor-not-increasing"]
  ELSE IF err.why # "none" THEN
       (IF Rec.res # "err" THEN [i |-> 0, clause |-> "spec-error-" \o err.why]
        ELSE IF err.d /\ (Rec.ep # err.p \/ Rec.el # err.l) THEN [i |-> 0, clause |-> "error-position"]
        ELSE [i |-> 0, clause |-> ""])
  ELSE IF Rec.res # "ok" THEN [i |-> 0, clause |-> "impl-" \o Rec.res]
  ELSE LET d == FirstDiff(nodes, Rec.nodes, 1) IN
       IF d # 0 THEN [i |-> d, clause |-> "node"]
       ELSE IF Rec.out # ostk[1].buf THEN [i |-> 0, clause |-> "output"]
       ELSE [i |-> 0, clause |-> ""]
Report(j) == PrintT(ToJson([t |-> Rec.id, ok |-> (j.clause = ""), i |-> j.i, clause |-> j.clause, ft |-> feat,
                            n |-> Len(nodes), segs |-> Len(segs)]))
TStep == verdict = "run" /\ ~fin /\ LexNext /\ UNCHANGED <<tr, verdict>>
TJudge == /\ verdict = "run" /\ fin /\ verdict' = "done" /\ Report(Judge) /\ UNCHANGED <<lvars, tr>>
TNext == TStep \/ TJudge
TSpec == TInit /\ [][TNext]_tvars
\* the property, on every state of every re-lexed document
TAccounting == verdict = "run" => AccountingInc /\ Iterations /\ ErrOrTree
=============================================================================
