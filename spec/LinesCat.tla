------------------------------ MODULE LinesCat ------------------------------
(* The catalog of construct geometries used by MC_Lines / MC_LineMap.       *)
(* This file is a PLACEHOLDER with a two-entry example so that the modules  *)
(* parse on their own; harness/c11.py and harness/c12.py overwrite it in    *)
(* the scratch directory of every TLC run with the catalog measured from    *)
(* the concrete construct texts of that run (see harness/lines_common.py).  *)
(* Fields are described in the header of Lines.tla / LineMap.tla.           *)
NoF == [cls |-> "none", site |-> "none", noff |-> 0, nc |-> 0, ind |-> 0, coff |-> 0,
        lead |-> 0, pfx |-> 0, pyl |-> 0, foff |-> 0, exact |-> FALSE, fr |-> <<>>]
CatDef == <<
  [id |-> "txtnl", w |-> <<9, 0>>, ls |-> FALSE, f |-> NoF, ev |-> <<>>],
  [id |-> "py.exprml2", w |-> <<7, 7>>, ls |-> FALSE, ev |-> <<>>,
   f |-> [cls |-> "py", site |-> "code", noff |-> 0, nc |-> 0, ind |-> 0, coff |-> 0,
          lead |-> 0, pfx |-> 0, pyl |-> 1, foff |-> 1, exact |-> FALSE, fr |-> <<>>]] >>
=============================================================================
