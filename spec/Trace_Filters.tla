----------------------------- MODULE Trace_Filters -----------------------------
(***************************************************************************)
(* Validates filter applications OBSERVED in the real Mako (logging        *)
(* callables for user filters, interposed mako.filters functions and a     *)
(* module-level `str` for the builtin flags) against Filters.  Each trace  *)
(* is one rendered template with ONE construct: its session (Filters.cfg)  *)
(* and the sequence of filter functions that were actually called,         *)
(* innermost first.  The machine of                                        *)
(* Filters is run on the configuration; every ApplyOne step must match the *)
(* next recorded application.  One verdict {t, ok, i, clause} per trace.   *)
(***************************************************************************)
EXTENDS Filters, Json, IOUtils, TLCExt
Traces == JsonDeserialize(IOEnv.TRACE_FILE)
VARIABLES tr, verdict
tvars == <<fvars, tr, verdict>>
Rec == Traces[tr]
TInit == \E i \in 1..Len(Traces) : tr = i /\ FInit(Traces[i].cfg) /\ verdict = "run"
Report(ok, i, clause) == PrintT(ToJson([t |-> Rec.id, ok |-> ok, i |-> i, clause |-> clause]))
TStep ==
  /\ verdict = "run" /\ phase # "done" /\ FNext /\ UNCHANGED tr
  /\ LET n == Len(apps'[1]) IN
     IF n > Len(apps[1]) /\ (n > Len(Rec.apps) \/ Rec.apps[n] # apps'[1][n])
     THEN verdict' = "fail" /\ Report(FALSE, n, IF n > Len(Rec.apps) THEN "application-missing" ELSE "application-differs")
     ELSE verdict' = "run"
TJudge ==
  /\ verdict = "run" /\ phase = "done" /\ UNCHANGED <<fvars, tr>>
  /\ IF Len(Rec.apps) > Len(apps[1]) THEN verdict' = "fail" /\ Report(FALSE, Len(apps[1]) + 1, "extra-application")
     ELSE IF ~(PipelineOrder /\ ConfigImmutable) THEN verdict' = "fail" /\ Report(FALSE, 0, "inv:PipelineOrder")
     ELSE verdict' = "ok" /\ Report(TRUE, 0, "")
TNext == TStep \/ TJudge
TSpec == TInit /\ [][TNext]_tvars
=============================================================================
