------------------------------- MODULE Filters -------------------------------
(***************************************************************************)
(* The filter pipeline of Mako (property C02).                             *)
(*                                                                         *)
(* Mirrors mako/codegen.py: create_filter_callable (and its callers        *)
(* visitExpression, write_def_finish, write_cache_decorator, visitTextTag). *)
(* A SESSION is what a user sets up: one default_filters list OBJECT `D`   *)
(* and one buffer_filters list `BF` (handed to Template(...) or to a       *)
(* TemplateLookup and therefore SHARED by everything compiled from it), a  *)
(* template with an optional <%page expression_filter> list `P` holding a  *)
(* SEQUENCE of constructs, and optionally a second template (no page tag)  *)
(* compiled afterwards from the same lookup / the same list objects.       *)
(* Constructs are compiled in order; each is a short program of STAGES,    *)
(* each stage one call of create_filter_callable(args, target,             *)
(* is_expression): compose the argument list (prepend P, then D, as the    *)
(* `n` rules allow), then apply the filters one by one, innermost first.   *)
(* Filters are abstract symbols; apps[i] is the SEQUENCE OF FILTER         *)
(* APPLICATIONS performed for construct i, each entry the documented       *)
(* function a flag denotes (NameTable) or the callable's own spelling.     *)
(* `dobj` / `bobj` are the contents of the shared list objects as the      *)
(* compiler (and afterwards the caller) sees them.                         *)
(*                                                                         *)
(* The property: PipelineOrder -- for EVERY construct of the session,      *)
(* ${x | f1, f2} writes f2(f1(P(D(x)))); `n` among the expression's filters *)
(* disables D and P; `n` in the page list disables only D; no configuration *)
(* means D = str; filter= on defs/blocks/<%text> applies its list only; a  *)
(* buffered def returns filter=, then buffer_filters, and the calling      *)
(* expression applies its own pipeline to that; a cached buffered def      *)
(* applies buffer_filters once -- and ConfigImmutable: compiling never     *)
(* changes the configuration objects, so the k-th construct and a later    *)
(* template see the same D as the first.                                   *)
(***************************************************************************)
EXTENDS Naturals, Sequences, FiniteSets, TLC

VARIABLES cfg,     \* [D, P, BF, items, items2]; an item is [c |-> construct, E |-> its own filter list, s |-> site]:
                   \* the SITE is where in the template the construct stands -- body, top-level def, nested def, named block
                   \* (top-level / inside a block), anonymous block, <%call> body, <%namespace> inline def, a block
                   \* overridden in an inheriting template, an included template.  A separate code generator instance
                   \* may compile each of them; the pipeline must not depend on it (SiteIndependent)
          dobj,    \* content of the default_filters list object
          bobj,    \* content of the buffer_filters list object
          item,    \* index of the construct being compiled (over items \o items2)
          stage,   \* index of the current stage of that construct
          args,    \* the argument list of the current stage (as composed so far)
          phase,   \* "page" | "defaults" | "apply" | "done"
          apps     \* apps[i]: filter applications of construct i so far, innermost first
fvars == <<cfg, dobj, bobj, item, stage, args, phase, apps>>

Absent == <<"$absent">>
Range(s) == {s[i] : i \in 1..Len(s)}
Has(s, x) == x \in Range(s)
Without(s, x) == SelectSeq(s, LAMBDA y : y # x)
AllItems(c) == c.items \o c.items2
\* the page filter list in force for construct i: the second template has no page tag
PageOf(c, i) == IF i <= Len(c.items) /\ c.P # Absent THEN c.P ELSE <<>>
\* what Template(default_filters=None) means
Eff(d) == IF d = Absent THEN <<"str">> ELSE d

\* NameTable: the documented function of each builtin flag; anything else is the callable spelled that way
Resolve(t) == CASE t = "h" -> "html_escape" [] t = "x" -> "xml_escape" [] t = "u" -> "url_escape"
                [] t = "trim" -> "trim" [] t = "entity" -> "html_entities_escape"
                [] t \in {"str", "unicode"} -> "str" [] OTHER -> t
Names(s) == [i \in 1..Len(s) |-> Resolve(s[i])]
Flags == {"h", "x", "u", "entity", "unicode", "n"}

\* the stages of a construct: [a |-> argument list, x |-> is_expression]; bf = buffer_filters as the compiler reads them
Stages(it, bf) ==
  CASE it.c = "expr" -> << [a |-> it.E, x |-> TRUE] >>
    [] it.c \in {"def", "block", "text", "cacheddef"} -> << [a |-> it.E, x |-> FALSE] >>
    \* buffered def called as ${f()}: filter=, buffer_filters, then the calling expression (no local filters)
    [] it.c \in {"bufdef", "cachedbufdef"} -> << [a |-> it.E, x |-> FALSE], [a |-> bf, x |-> FALSE], [a |-> <<>>, x |-> TRUE] >>
Cur == AllItems(cfg)[item]

FInit(c) == /\ cfg = c /\ dobj = c.D /\ bobj = c.BF /\ item = 1 /\ stage = 1
            /\ args = Stages(AllItems(c)[1], c.BF)[1].a /\ phase = "page"
            /\ apps = [i \in 1..Len(AllItems(c)) |-> <<>>]

\* `if "n" not in args: if is_expression: if pagetag: args = pagetag.filter_args.args + args`
PrependPage ==
  /\ phase = "page"
  /\ IF Stages(Cur, bobj)[stage].x /\ ~Has(args, "n")
     THEN args' = PageOf(cfg, item) \o args /\ phase' = "defaults"
     ELSE args' = args /\ phase' = "apply"
  /\ UNCHANGED <<cfg, dobj, bobj, item, stage, apps>>
\* `if default_filters and "n" not in args: args = default_filters + args`   (a NEW list: the object is only read)
PrependDefaults ==
  /\ phase = "defaults"
  /\ args' = (IF ~Has(args, "n") THEN Eff(dobj) \o args ELSE args)
  /\ phase' = "apply" /\ UNCHANGED <<cfg, dobj, bobj, item, stage, apps>>
\* `for e in args: if e == "n": continue; target = locate_encode(e)(target)`
ApplyOne ==
  /\ phase = "apply" /\ args # <<>>
  /\ apps' = (IF Head(args) = "n" THEN apps ELSE [apps EXCEPT ![item] = Append(@, Resolve(Head(args)))])
  /\ args' = Tail(args) /\ UNCHANGED <<cfg, dobj, bobj, item, stage, phase>>
NextStage ==
  /\ phase = "apply" /\ args = <<>>
  /\ IF stage < Len(Stages(Cur, bobj))
     THEN item' = item /\ stage' = stage + 1 /\ args' = Stages(Cur, bobj)[stage + 1].a /\ phase' = "page"
     ELSE IF item < Len(AllItems(cfg))
     THEN item' = item + 1 /\ stage' = 1 /\ args' = Stages(AllItems(cfg)[item + 1], bobj)[1].a /\ phase' = "page"
     ELSE item' = item /\ stage' = stage /\ args' = args /\ phase' = "done"
  /\ UNCHANGED <<cfg, dobj, bobj, apps>>
FNext == PrependPage \/ PrependDefaults \/ ApplyOne \/ NextStage

(***************************************************************************)
(* The property                                                            *)
(***************************************************************************)
\* pipeline of an expression with local filters e under defaults d and page list p:  E' after P' after D'
ExprPipe(d, p, e) ==
  LET localN == Has(e, "n")
      pageN  == Has(p, "n")
  IN (IF localN \/ pageN THEN <<>> ELSE Names(Without(Eff(d), "n")))
     \o (IF localN THEN <<>> ELSE Names(Without(p, "n")))
     \o Names(Without(e, "n"))
\* stated on the configuration AS THE USER WROTE IT (cfg.D, cfg.BF), for construct i
Expected(c, i) ==
  LET it == AllItems(c)[i]  p == PageOf(c, i) IN
  CASE it.c = "expr" -> ExprPipe(c.D, p, it.E)
    [] it.c \in {"def", "block", "text", "cacheddef"} -> Names(Without(it.E, "n"))
    [] it.c \in {"bufdef", "cachedbufdef"} -> Names(Without(it.E, "n")) \o Names(Without(c.BF, "n")) \o ExprPipe(c.D, p, <<>>)
\* every construct already compiled -- the first, the k-th, those of the second template -- got its documented pipeline
PipelineOrder == \A i \in 1..Len(apps) : (i < item \/ phase = "done") => apps[i] = Expected(cfg, i)
\* the pipeline of a construct does not depend on WHERE in the template it stands
AtBody(c) == [c EXCEPT !.items = [i \in 1..Len(c.items) |-> [c.items[i] EXCEPT !.s = "body"]],
                       !.items2 = [i \in 1..Len(c.items2) |-> [c.items2[i] EXCEPT !.s = "body"]]]
SiteIndependent == \A i \in 1..Len(apps) : (i < item \/ phase = "done") => apps[i] = Expected(AtBody(cfg), i)
\* compiling never changes the shared configuration objects
ConfigImmutable == dobj = cfg.D /\ bobj = cfg.BF
NameTable == \A i \in 1..Len(apps) : \A j \in 1..Len(apps[i]) : apps[i][j] \notin Flags
\* applications only ever grow at the outer end of the construct being compiled
Monotone == [][\A i \in 1..Len(apps) : \E k \in 0..1 : Len(apps'[i]) = Len(apps[i]) + k /\ SubSeq(apps'[i], 1, Len(apps[i])) = apps[i]
                                                       /\ (k = 1 => i = item)]_fvars
=============================================================================
