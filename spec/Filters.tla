------------------------------- MODULE Filters -------------------------------
(***************************************************************************)
(* The filter pipeline of Mako (property C02).                             *)
(*                                                                         *)
(* Mirrors mako/codegen.py: create_filter_callable (and its callers        *)
(* visitExpression, write_def_finish, write_cache_decorator, visitTextTag): *)
(* a construct is a short program of STAGES, each stage one call of        *)
(* create_filter_callable(args, target, is_expression); a stage composes   *)
(* its argument list (prepend the <%page expression_filter> list, then the *)
(* default_filters, as the `n` rules allow) and then applies the filters   *)
(* one by one, innermost first.  Filters are abstract symbols; the state   *)
(* is the SEQUENCE OF FILTER APPLICATIONS performed so far (`apps`), each   *)
(* entry the documented function a flag denotes (NameTable) or the         *)
(* callable's own spelling.                                                *)
(*                                                                         *)
(* The property (PipelineOrder) is stated declaratively, from the property *)
(* text:  ${x | f1, f2} writes f2(f1(P(D(x)))); `n` among the expression's  *)
(* filters disables D and P; `n` in the page list disables only D; no      *)
(* configuration means D = str; filter= on defs/blocks/<%text> applies its *)
(* list only (no D, no P); a buffered def returns filter=, then            *)
(* buffer_filters, and the calling expression applies its own pipeline to   *)
(* that; a cached buffered def applies buffer_filters once.                *)
(***************************************************************************)
EXTENDS Naturals, Sequences, FiniteSets, TLC

VARIABLES cfg,     \* [c |-> construct, D, P, E, BF]  D/P = <<"$absent">>: not configured
          stage,   \* index of the current stage
          args,    \* the argument list of the current stage (as composed so far)
          phase,   \* "page" | "defaults" | "apply" | "done"
          apps     \* filter applications so far, innermost first
fvars == <<cfg, stage, args, phase, apps>>

Absent == <<"$absent">>
Range(s) == {s[i] : i \in 1..Len(s)}
Has(s, x) == x \in Range(s)
Without(s, x) == SelectSeq(s, LAMBDA y : y # x)
\* what Template(default_filters=None) means
EffD(c) == IF c.D = Absent THEN <<"str">> ELSE c.D
EffP(c) == IF c.P = Absent THEN <<>> ELSE c.P

\* NameTable: the documented function of each builtin flag; anything else is the callable spelled that way
Resolve(t) == CASE t = "h" -> "html_escape" [] t = "x" -> "xml_escape" [] t = "u" -> "url_escape"
                [] t = "trim" -> "trim" [] t = "entity" -> "html_entities_escape"
                [] t \in {"str", "unicode"} -> "str" [] OTHER -> t
Names(s) == [i \in 1..Len(s) |-> Resolve(s[i])]
Flags == {"h", "x", "u", "entity", "unicode", "n"}

\* the stages of a construct: [a |-> argument list, x |-> is_expression]
Stages(c) ==
  CASE c.c = "expr" -> << [a |-> c.E, x |-> TRUE] >>
    [] c.c \in {"def", "block", "text", "cacheddef"} -> << [a |-> c.E, x |-> FALSE] >>
    \* buffered def called as ${f()}: filter=, buffer_filters, then the calling expression (no local filters)
    [] c.c \in {"bufdef", "cachedbufdef"} -> << [a |-> c.E, x |-> FALSE], [a |-> c.BF, x |-> FALSE], [a |-> <<>>, x |-> TRUE] >>

FInit(c) == cfg = c /\ stage = 1 /\ args = Stages(c)[1].a /\ phase = "page" /\ apps = <<>>

\* `if "n" not in args: if is_expression: if pagetag: args = pagetag.filter_args.args + args`
PrependPage ==
  /\ phase = "page"
  /\ IF Stages(cfg)[stage].x /\ ~Has(args, "n")
     THEN args' = EffP(cfg) \o args /\ phase' = "defaults"
     ELSE args' = args /\ phase' = "apply"
  /\ UNCHANGED <<cfg, stage, apps>>
\* `if default_filters and "n" not in args: args = default_filters + args`
PrependDefaults ==
  /\ phase = "defaults"
  /\ args' = (IF ~Has(args, "n") THEN EffD(cfg) \o args ELSE args)
  /\ phase' = "apply" /\ UNCHANGED <<cfg, stage, apps>>
\* `for e in args: if e == "n": continue; target = locate_encode(e)(target)`
ApplyOne ==
  /\ phase = "apply" /\ args # <<>>
  /\ apps' = (IF Head(args) = "n" THEN apps ELSE Append(apps, Resolve(Head(args))))
  /\ args' = Tail(args) /\ UNCHANGED <<cfg, stage, phase>>
NextStage ==
  /\ phase = "apply" /\ args = <<>>
  /\ IF stage < Len(Stages(cfg))
     THEN stage' = stage + 1 /\ args' = Stages(cfg)[stage + 1].a /\ phase' = "page"
     ELSE stage' = stage /\ args' = args /\ phase' = "done"
  /\ UNCHANGED <<cfg, apps>>
FNext == PrependPage \/ PrependDefaults \/ ApplyOne \/ NextStage

(***************************************************************************)
(* The property                                                            *)
(***************************************************************************)
\* pipeline of an expression with local filters e:  E' after P' after D'
ExprPipe(c, e) ==
  LET localN == Has(e, "n")
      pageN  == Has(EffP(c), "n")
  IN (IF localN \/ pageN THEN <<>> ELSE Names(Without(EffD(c), "n")))
     \o (IF localN THEN <<>> ELSE Names(Without(EffP(c), "n")))
     \o Names(Without(e, "n"))
Expected(c) ==
  CASE c.c = "expr" -> ExprPipe(c, c.E)
    [] c.c \in {"def", "block", "text", "cacheddef"} -> Names(Without(c.E, "n"))
    [] c.c \in {"bufdef", "cachedbufdef"} -> Names(Without(c.E, "n")) \o Names(Without(c.BF, "n")) \o ExprPipe(c, <<>>)
PipelineOrder == phase = "done" => apps = Expected(cfg)
NameTable == \A i \in 1..Len(apps) : apps[i] \notin Flags
\* applications only ever grow at the outer end
Monotone == [][\E k \in 0..1 : Len(apps') = Len(apps) + k /\ SubSeq(apps', 1, Len(apps)) = apps]_fvars
=============================================================================
