------------------------------ MODULE MC_Filters ------------------------------
(***************************************************************************)
(* All sessions of Filters within the bound (Deep = FALSE: quick, TRUE:    *)
(* thorough): every D x P x E x BF x construct configuration with a single *)
(* construct, and sequences of 2-3 constructs in one template, optionally   *)
(* followed by a second template sharing D and BF.  Every terminal state   *)
(* prints the session and the expected application sequence per construct. *)
(***************************************************************************)
EXTENDS Filters, Json
CONSTANT Deep
SeqsUpTo(S, n) == UNION {[1..m -> S] : m \in 0..n}
ETokAll == {"h", "x", "u", "trim", "entity", "str", "unicode", "n", "f1", "f2", "g(1)", "decode.utf8"}
ETokSmall == {"h", "trim", "f1", "n"}
DChoices == {Absent, <<>>, <<"str">>, <<"str", "d1">>, <<"d1", "d2">>, <<"h">>, <<"decode.utf8", "d1">>}
            \cup (IF Deep THEN {<<"d2", "str", "d1">>, <<"trim", "str">>, <<"str", "h", "d1">>} ELSE {})
PChoices == {Absent, <<"p1">>, <<"p1", "p2">>, <<"n", "p1">>, <<"p2", "n">>, <<"h">>, <<"n">>}
            \cup (IF Deep THEN {<<"p2", "p1", "trim">>, <<"p1", "n", "p2">>, <<"x", "p1">>} ELSE {})
EChoices == SeqsUpTo(ETokAll, 2) \cup {s \in SeqsUpTo(ETokSmall, IF Deep THEN 4 ELSE 3) : Len(s) >= 3}
            \cup (IF Deep THEN {s \in SeqsUpTo({"x", "u", "entity", "f2", "g(1)", "n"}, 3) : Len(s) = 3} ELSE {})
BFChoices == {<<>>, <<"b1">>, <<"b1", "trim">>, <<"n", "b1">>}
ESmall == SeqsUpTo({"h", "f1", "trim", "n"}, 2)
It(c, e) == [c |-> c, E |-> e, s |-> "body"]
At(c, e, st) == [c |-> c, E |-> e, s |-> st]
One(c, d, p, e, b) == [D |-> d, P |-> p, BF |-> b, items |-> <<It(c, e)>>, items2 |-> <<>>]
Single ==
  {One("expr", d, p, e, <<>>) : d \in DChoices, p \in PChoices, e \in EChoices}
  \cup {One(c, d, p, e, b) : c \in {"def", "block", "text", "cacheddef"}, d \in {Absent, <<"d1">>}, p \in {Absent, <<"p1">>},
                             e \in SeqsUpTo(ETokAll, 2), b \in {<<>>, <<"b1">>}}
  \cup {One(c, d, p, e, b) : c \in {"bufdef", "cachedbufdef"}, d \in {Absent, <<>>, <<"str", "d1">>, <<"d1", "d2">>},
                             p \in {Absent, <<"p1">>, <<"n", "p1">>}, e \in ESmall, b \in BFChoices}
\* Filter CALLS with arguments (abstract tokens; the harness concretises the argument token to a literal and the
\* callable records the exact argument values it receives), a second decode.<encoding>, a Python builtin used as a
\* filter (repr) and a context callable named like a builtin (max) -- at every site a filter list can be written:
\* ${x | ...}, filter= on def / block / <%text> / cached and buffered defs, and <%page expression_filter>
CallToks == {"k(int)", "k(name)", "k(sp1)", "k(sp2)", "k(tab)", "k(nbsp)", "k(tq)", "k(punct)", "k(kw)", "k(nested)", "k(list)",
             "k(dict)", "k(two)"}
ExtraToks == CallToks \cup {"decode.latin1", "repr", "max"}
Calls ==
  {One(c, d, p, e, <<>>) : c \in {"expr", "def", "block", "text", "bufdef", "cacheddef"}, d \in {Absent, <<"d1">>}, p \in {Absent, <<"p1">>},
                           e \in UNION {{<<t>>, <<t, "h">>, <<"f1", t>>} : t \in ExtraToks}}
  \cup {One("expr", d, p, e, <<>>) : d \in {Absent, <<>>, <<"decode.latin1", "d1">>},
                                     p \in UNION {{<<t>>, <<"p1", t>>, <<"n", t>>} : t \in CallToks \cup {"decode.latin1"}}, e \in {<<>>, <<"f1">>}}
\* several constructs compiled one after the other against the same configuration objects
ItemsA == {It("expr", <<>>), It("expr", <<"f1">>), It("expr", <<"n">>), It("def", <<"f2">>), It("bufdef", <<"f1">>), It("block", <<"h">>)}
ItemsB == {It("expr", <<>>), It("expr", <<"f1">>), It("bufdef", <<>>), It("text", <<"trim">>)}
ItemSeqs == {<<a, b>> : a \in ItemsA, b \in ItemsA}
            \cup {<<a, b, c>> : a \in (IF Deep THEN ItemsA ELSE ItemsB), b \in (IF Deep THEN ItemsA ELSE ItemsB), c \in (IF Deep THEN ItemsA ELSE ItemsB)}
Second == {<<>>, <<It("expr", <<>>)>>, <<It("expr", <<"f1">>), It("bufdef", <<>>)>>}
Several ==
  {[D |-> d, P |-> p, BF |-> b, items |-> s, items2 |-> t] :
     d \in {Absent, <<>>, <<"d1">>, <<"str", "d1">>}, p \in {Absent, <<"p1">>, <<"p1", "p2">>, <<"n", "p1">>, <<"x">>},
     b \in (IF Deep THEN {<<>>, <<"b1">>} ELSE {<<"b1">>}), s \in ItemSeqs, t \in Second}
\* the SITE dimension: the same construct at every place of a template a ${ } / filter= / buffered def can stand
Sites == {"body", "topdef", "nesteddef", "namedblock", "blockinblock", "anonblock", "callbody", "nsdef", "inherited", "include"}
SiteE == {<<>>, <<"f1">>, <<"n">>, <<"h", "f1">>, <<"n", "f1">>}
SiteP == {Absent, <<"p1">>, <<"p1", "p2">>, <<"n", "p1">>, <<"x">>}
Sited ==
  {[D |-> d, P |-> p, BF |-> <<>>, items |-> <<At("expr", e, st)>>, items2 |-> <<>>] :
     d \in {Absent, <<"d1">>, <<"str", "d1">>}, p \in SiteP, e \in SiteE, st \in Sites}
  \cup {[D |-> d, P |-> p, BF |-> <<"b1">>, items |-> <<At(c, e, st)>>, items2 |-> <<>>] :
     c \in {"bufdef", "text", "def"}, d \in {Absent, <<"d1">>}, p \in {<<"p1">>, <<"n", "p1">>}, e \in {<<>>, <<"f1">>},
     st \in {"topdef", "namedblock", "anonblock", "callbody", "nsdef"}}
  \* one template whose expressions stand at different sites: all of them get the same pipeline
  \cup {[D |-> d, P |-> p, BF |-> <<>>, items |-> <<At("expr", <<>>, "body"), At("expr", e, st), At("expr", <<"f1">>, st2)>>, items2 |-> <<>>] :
     d \in {Absent, <<"d1">>}, p \in {<<"p1">>, <<"n", "p1">>, <<"x">>}, e \in {<<>>, <<"n">>},
     st \in Sites \ {"inherited", "include"}, st2 \in {"topdef", "namedblock", "callbody"}}
Configs == Single \cup Several \cup Calls \cup Sited
MCInit == \E c \in Configs : FInit(c)
MCSpec == MCInit /\ [][FNext]_fvars
PrintTerminal == ~(phase = "done" /\ PrintT(ToJson([cfg |-> cfg, apps |-> apps])) /\ FALSE)
=============================================================================
