------------------------------ MODULE MC_Filters ------------------------------
(***************************************************************************)
(* All D x P x E x BF x construct configurations of Filters within the     *)
(* bound (Deep = FALSE: quick, TRUE: thorough); every terminal state       *)
(* prints the configuration and the expected application sequence.         *)
(***************************************************************************)
EXTENDS Filters, Json
CONSTANT Deep
SeqsUpTo(S, n) == UNION {[1..m -> S] : m \in 0..n}
ETokAll == {"h", "x", "u", "trim", "entity", "str", "unicode", "n", "f1", "f2", "g(1)", "decode.utf8"}
ETokSmall == {"h", "trim", "f1", "n"}
DChoices == {Absent, <<>>, <<"str">>, <<"str", "d1">>, <<"d1", "d2">>, <<"h">>, <<"decode.utf8", "d1">>}
            \cup (IF Deep THEN {<<"d2", "str", "d1">>, <<"trim", "str">>, <<"str", "h", "d1">>} ELSE {})
PChoices == {Absent, <<"p1">>, <<"p1", "p2">>, <<"n", "p1">>, <<"p2", "n">>, <<"h">>, <<"n">>}
            \cup (IF Deep THEN {<<"p2", "p1", "trim">>, <<"p1", "n", "p2">>, <<"x", "p1">>} ELSE {})
EChoices == SeqsUpTo(ETokAll, 2) \cup {s \in SeqsUpTo(ETokSmall, IF Deep THEN 4 ELSE 3) : Len(s) >= 3}
            \cup (IF Deep THEN {s \in SeqsUpTo({"x", "u", "entity", "f2", "g(1)", "n"}, 3) : Len(s) = 3} ELSE {})
BFChoices == {<<>>, <<"b1">>, <<"b1", "trim">>, <<"n", "b1">>}
ESmall == SeqsUpTo({"h", "f1", "trim", "n"}, 2)
Rec(c, d, p, e, b) == [c |-> c, D |-> d, P |-> p, E |-> e, BF |-> b]
Configs ==
  {Rec("expr", d, p, e, <<>>) : d \in DChoices, p \in PChoices, e \in EChoices}
  \cup {Rec(c, d, p, e, b) : c \in {"def", "block", "text", "cacheddef"}, d \in {Absent, <<"d1">>}, p \in {Absent, <<"p1">>},
                             e \in SeqsUpTo(ETokAll, 2), b \in {<<>>, <<"b1">>}}
  \cup {Rec(c, d, p, e, b) : c \in {"bufdef", "cachedbufdef"}, d \in {Absent, <<>>, <<"str", "d1">>, <<"d1", "d2">>},
                             p \in {Absent, <<"p1">>, <<"n", "p1">>}, e \in ESmall, b \in BFChoices}
MCInit == \E c \in Configs : FInit(c)
MCSpec == MCInit /\ [][FNext]_fvars
PrintTerminal == ~(phase = "done" /\ PrintT(ToJson([cfg |-> cfg, apps |-> apps])) /\ FALSE)
\* witnesses against vacuity (each must be VIOLATED when checked as an invariant)
Witness_LocalN == ~(phase = "done" /\ cfg.c = "expr" /\ Has(cfg.E, "n") /\ Len(apps) > 0)
Witness_PageN == ~(phase = "done" /\ cfg.c = "expr" /\ Has(EffP(cfg), "n") /\ ~Has(cfg.E, "n") /\ Len(apps) > 1)
=============================================================================
