------------------------------- MODULE PyExpr -------------------------------
(***************************************************************************)
(* Python expressions as Mako re-emits them (property C19, second clause). *)
(*                                                                         *)
(* Argument defaults of <%def>, <%block> and <%page>, and the arguments of *)
(* filter calls, are not copied from the template: they are parsed and     *)
(* printed again by mako/_ast_util.py SourceGenerator (through             *)
(* mako/pyparser.py ExpressionGenerator, mako/ast.py FunctionDecl and      *)
(* ArgumentList).  The property: they evaluate to the same values as       *)
(* written.                                                                *)
(*                                                                         *)
(* This module supplies the SPACE of expressions and, for each, two        *)
(* spellings:                                                              *)
(*   ref  the reference rendering: every subexpression, leaves included,   *)
(*        in its own parentheses -- this is the definition of which        *)
(*        expression is meant;                                             *)
(*   min  the spelling a person writes: parentheses only where Python's    *)
(*        grammar needs them (precedence level of the child below the      *)
(*        level the position requires).                                    *)
(* An expression is a spine: a leaf wrapped by up to MaxWraps forms; a     *)
(* form is (node class of CPython's ast, position of the child, text       *)
(* before and after the child, precedence level of the result, level       *)
(* required of the child); the other operands of a form are fixed leaves.  *)
(* All parent / position / child chains up to the bound are enumerated.    *)
(* Each state prints {spine, leaf, ref, min}.  The harness feeds `min` to  *)
(* Mako and compares what Mako prints with `ref` (CPython's parser and     *)
(* evaluator are the judge); it also checks min == ref under CPython,      *)
(* which validates the precedence table below.                             *)
(*                                                                         *)
(* Levels: 0 lambda, 1 conditional, 2 or, 3 and, 4 not, 5 comparison,      *)
(* 6 |, 7 ^, 8 &, 9 shifts, 10 + -, 11 * / // % @, 12 unary, 13 **,        *)
(* 14 await, 15 atoms and primaries, 16 bare names.                        *)
(***************************************************************************)
EXTENDS Naturals, Sequences, TLC, Json
CONSTANT MaxWraps
Forms == <<
  [id |-> "neg", cls |-> "UnaryOp(USub)", pos |-> "operand", pre |-> "-", suf |-> "", prec |-> 12, need |-> 12],
  [id |-> "pos", cls |-> "UnaryOp(UAdd)", pos |-> "operand", pre |-> "+", suf |-> "", prec |-> 12, need |-> 12],
  [id |-> "inv", cls |-> "UnaryOp(Invert)", pos |-> "operand", pre |-> "~", suf |-> "", prec |-> 12, need |-> 12],
  [id |-> "not", cls |-> "UnaryOp(Not)", pos |-> "operand", pre |-> "not ", suf |-> "", prec |-> 4, need |-> 4],
  [id |-> "add_l", cls |-> "BinOp(Add)", pos |-> "left", pre |-> "", suf |-> " + b", prec |-> 10, need |-> 10],
  [id |-> "add_r", cls |-> "BinOp(Add)", pos |-> "right", pre |-> "b + ", suf |-> "", prec |-> 10, need |-> 11],
  [id |-> "sub_l", cls |-> "BinOp(Sub)", pos |-> "left", pre |-> "", suf |-> " - b", prec |-> 10, need |-> 10],
  [id |-> "sub_r", cls |-> "BinOp(Sub)", pos |-> "right", pre |-> "b - ", suf |-> "", prec |-> 10, need |-> 11],
  [id |-> "mul_l", cls |-> "BinOp(Mult)", pos |-> "left", pre |-> "", suf |-> " * b", prec |-> 11, need |-> 11],
  [id |-> "mul_r", cls |-> "BinOp(Mult)", pos |-> "right", pre |-> "b * ", suf |-> "", prec |-> 11, need |-> 12],
  [id |-> "div_l", cls |-> "BinOp(Div)", pos |-> "left", pre |-> "", suf |-> " / b", prec |-> 11, need |-> 11],
  [id |-> "div_r", cls |-> "BinOp(Div)", pos |-> "right", pre |-> "b / ", suf |-> "", prec |-> 11, need |-> 12],
  [id |-> "floordiv_l", cls |-> "BinOp(FloorDiv)", pos |-> "left", pre |-> "", suf |-> " // b", prec |-> 11, need |-> 11],
  [id |-> "floordiv_r", cls |-> "BinOp(FloorDiv)", pos |-> "right", pre |-> "b // ", suf |-> "", prec |-> 11, need |-> 12],
  [id |-> "mod_l", cls |-> "BinOp(Mod)", pos |-> "left", pre |-> "", suf |-> " % b", prec |-> 11, need |-> 11],
  [id |-> "mod_r", cls |-> "BinOp(Mod)", pos |-> "right", pre |-> "b % ", suf |-> "", prec |-> 11, need |-> 12],
  [id |-> "matmul_l", cls |-> "BinOp(MatMult)", pos |-> "left", pre |-> "", suf |-> " @ b", prec |-> 11, need |-> 11],
  [id |-> "matmul_r", cls |-> "BinOp(MatMult)", pos |-> "right", pre |-> "b @ ", suf |-> "", prec |-> 11, need |-> 12],
  [id |-> "lshift_l", cls |-> "BinOp(LShift)", pos |-> "left", pre |-> "", suf |-> " << b", prec |-> 9, need |-> 9],
  [id |-> "lshift_r", cls |-> "BinOp(LShift)", pos |-> "right", pre |-> "b << ", suf |-> "", prec |-> 9, need |-> 10],
  [id |-> "rshift_l", cls |-> "BinOp(RShift)", pos |-> "left", pre |-> "", suf |-> " >> b", prec |-> 9, need |-> 9],
  [id |-> "rshift_r", cls |-> "BinOp(RShift)", pos |-> "right", pre |-> "b >> ", suf |-> "", prec |-> 9, need |-> 10],
  [id |-> "bitor_l", cls |-> "BinOp(BitOr)", pos |-> "left", pre |-> "", suf |-> " | b", prec |-> 6, need |-> 6],
  [id |-> "bitor_r", cls |-> "BinOp(BitOr)", pos |-> "right", pre |-> "b | ", suf |-> "", prec |-> 6, need |-> 7],
  [id |-> "bitxor_l", cls |-> "BinOp(BitXor)", pos |-> "left", pre |-> "", suf |-> " ^ b", prec |-> 7, need |-> 7],
  [id |-> "bitxor_r", cls |-> "BinOp(BitXor)", pos |-> "right", pre |-> "b ^ ", suf |-> "", prec |-> 7, need |-> 8],
  [id |-> "bitand_l", cls |-> "BinOp(BitAnd)", pos |-> "left", pre |-> "", suf |-> " & b", prec |-> 8, need |-> 8],
  [id |-> "bitand_r", cls |-> "BinOp(BitAnd)", pos |-> "right", pre |-> "b & ", suf |-> "", prec |-> 8, need |-> 9],
  [id |-> "pow_l", cls |-> "BinOp(Pow)", pos |-> "left", pre |-> "", suf |-> " ** b", prec |-> 13, need |-> 14],
  [id |-> "pow_r", cls |-> "BinOp(Pow)", pos |-> "right", pre |-> "b ** ", suf |-> "", prec |-> 13, need |-> 12],
  [id |-> "and_l", cls |-> "BoolOp(And)", pos |-> "first", pre |-> "", suf |-> " and b", prec |-> 3, need |-> 4],
  [id |-> "and_r", cls |-> "BoolOp(And)", pos |-> "last", pre |-> "b and ", suf |-> "", prec |-> 3, need |-> 4],
  [id |-> "or_l", cls |-> "BoolOp(Or)", pos |-> "first", pre |-> "", suf |-> " or b", prec |-> 2, need |-> 3],
  [id |-> "or_r", cls |-> "BoolOp(Or)", pos |-> "last", pre |-> "b or ", suf |-> "", prec |-> 2, need |-> 3],
  [id |-> "eq_l", cls |-> "Compare(Eq)", pos |-> "left", pre |-> "", suf |-> " == b", prec |-> 5, need |-> 6],
  [id |-> "eq_r", cls |-> "Compare(Eq)", pos |-> "right", pre |-> "b == ", suf |-> "", prec |-> 5, need |-> 6],
  [id |-> "ne_l", cls |-> "Compare(NotEq)", pos |-> "left", pre |-> "", suf |-> " != b", prec |-> 5, need |-> 6],
  [id |-> "ne_r", cls |-> "Compare(NotEq)", pos |-> "right", pre |-> "b != ", suf |-> "", prec |-> 5, need |-> 6],
  [id |-> "lt_l", cls |-> "Compare(Lt)", pos |-> "left", pre |-> "", suf |-> " < b", prec |-> 5, need |-> 6],
  [id |-> "lt_r", cls |-> "Compare(Lt)", pos |-> "right", pre |-> "b < ", suf |-> "", prec |-> 5, need |-> 6],
  [id |-> "le_l", cls |-> "Compare(LtE)", pos |-> "left", pre |-> "", suf |-> " <= b", prec |-> 5, need |-> 6],
  [id |-> "le_r", cls |-> "Compare(LtE)", pos |-> "right", pre |-> "b <= ", suf |-> "", prec |-> 5, need |-> 6],
  [id |-> "gt_l", cls |-> "Compare(Gt)", pos |-> "left", pre |-> "", suf |-> " > b", prec |-> 5, need |-> 6],
  [id |-> "gt_r", cls |-> "Compare(Gt)", pos |-> "right", pre |-> "b > ", suf |-> "", prec |-> 5, need |-> 6],
  [id |-> "ge_l", cls |-> "Compare(GtE)", pos |-> "left", pre |-> "", suf |-> " >= b", prec |-> 5, need |-> 6],
  [id |-> "ge_r", cls |-> "Compare(GtE)", pos |-> "right", pre |-> "b >= ", suf |-> "", prec |-> 5, need |-> 6],
  [id |-> "is_l", cls |-> "Compare(Is)", pos |-> "left", pre |-> "", suf |-> " is b", prec |-> 5, need |-> 6],
  [id |-> "is_r", cls |-> "Compare(Is)", pos |-> "right", pre |-> "b is ", suf |-> "", prec |-> 5, need |-> 6],
  [id |-> "isnot_l", cls |-> "Compare(IsNot)", pos |-> "left", pre |-> "", suf |-> " is not b", prec |-> 5, need |-> 6],
  [id |-> "isnot_r", cls |-> "Compare(IsNot)", pos |-> "right", pre |-> "b is not ", suf |-> "", prec |-> 5, need |-> 6],
  [id |-> "in_l", cls |-> "Compare(In)", pos |-> "left", pre |-> "", suf |-> " in b", prec |-> 5, need |-> 6],
  [id |-> "in_r", cls |-> "Compare(In)", pos |-> "right", pre |-> "b in ", suf |-> "", prec |-> 5, need |-> 6],
  [id |-> "notin_l", cls |-> "Compare(NotIn)", pos |-> "left", pre |-> "", suf |-> " not in b", prec |-> 5, need |-> 6],
  [id |-> "notin_r", cls |-> "Compare(NotIn)", pos |-> "right", pre |-> "b not in ", suf |-> "", prec |-> 5, need |-> 6],
  [id |-> "chain_m", cls |-> "Compare(chain)", pos |-> "middle", pre |-> "a < ", suf |-> " < b", prec |-> 5, need |-> 6],
  [id |-> "ifexp_body", cls |-> "IfExp", pos |-> "body", pre |-> "", suf |-> " if b else 1", prec |-> 1, need |-> 2],
  [id |-> "ifexp_test", cls |-> "IfExp", pos |-> "test", pre |-> "b if ", suf |-> " else 1", prec |-> 1, need |-> 2],
  [id |-> "ifexp_else", cls |-> "IfExp", pos |-> "orelse", pre |-> "b if 1 else ", suf |-> "", prec |-> 1, need |-> 0],
  [id |-> "lambda_body", cls |-> "Lambda", pos |-> "body", pre |-> "lambda x: ", suf |-> "", prec |-> 0, need |-> 0],
  [id |-> "lambda_default", cls |-> "Lambda", pos |-> "default", pre |-> "lambda x=", suf |-> ": x", prec |-> 0, need |-> 1],
  [id |-> "call_func", cls |-> "Call", pos |-> "func", pre |-> "", suf |-> "(b)", prec |-> 15, need |-> 15],
  [id |-> "call_arg", cls |-> "Call", pos |-> "arg", pre |-> "f(", suf |-> ")", prec |-> 15, need |-> 0],
  [id |-> "call_arg2", cls |-> "Call", pos |-> "arg2", pre |-> "f(b, ", suf |-> ")", prec |-> 15, need |-> 0],
  [id |-> "call_kw", cls |-> "Call", pos |-> "keyword", pre |-> "f(k=", suf |-> ")", prec |-> 15, need |-> 0],
  [id |-> "call_star", cls |-> "Call", pos |-> "star", pre |-> "f(*", suf |-> ")", prec |-> 15, need |-> 1],
  [id |-> "call_dstar", cls |-> "Call", pos |-> "dstar", pre |-> "f(**", suf |-> ")", prec |-> 15, need |-> 1],
  [id |-> "attr", cls |-> "Attribute", pos |-> "value", pre |-> "", suf |-> ".real", prec |-> 15, need |-> 16],
  [id |-> "sub_value", cls |-> "Subscript", pos |-> "value", pre |-> "", suf |-> "[b]", prec |-> 15, need |-> 15],
  [id |-> "sub_index", cls |-> "Subscript", pos |-> "index", pre |-> "s[", suf |-> "]", prec |-> 15, need |-> 1],
  [id |-> "slice_lower", cls |-> "Subscript(Slice)", pos |-> "lower", pre |-> "s[", suf |-> ":]", prec |-> 15, need |-> 1],
  [id |-> "slice_upper", cls |-> "Subscript(Slice)", pos |-> "upper", pre |-> "s[:", suf |-> "]", prec |-> 15, need |-> 1],
  [id |-> "slice_step", cls |-> "Subscript(Slice)", pos |-> "step", pre |-> "s[::", suf |-> "]", prec |-> 15, need |-> 1],
  [id |-> "slice_both", cls |-> "Subscript(Slice)", pos |-> "lower2", pre |-> "s[", suf |-> ":b]", prec |-> 15, need |-> 1],
  [id |-> "sub_tuple", cls |-> "Subscript(Tuple)", pos |-> "elt", pre |-> "s[", suf |-> ", b]", prec |-> 15, need |-> 1],
  [id |-> "sub_ext", cls |-> "Subscript(Tuple-of-Slice)", pos |-> "lower", pre |-> "s[", suf |-> ":b, 1]", prec |-> 15, need |-> 1],
  [id |-> "tuple2", cls |-> "Tuple", pos |-> "elt", pre |-> "(", suf |-> ", b)", prec |-> 15, need |-> 1],
  [id |-> "tuple1", cls |-> "Tuple", pos |-> "single", pre |-> "(", suf |-> ",)", prec |-> 15, need |-> 1],
  [id |-> "list", cls |-> "List", pos |-> "elt", pre |-> "[", suf |-> ", b]", prec |-> 15, need |-> 1],
  [id |-> "set", cls |-> "Set", pos |-> "elt", pre |-> "{", suf |-> ", b}", prec |-> 15, need |-> 1],
  [id |-> "dict_key", cls |-> "Dict", pos |-> "key", pre |-> "{", suf |-> ": b}", prec |-> 15, need |-> 1],
  [id |-> "dict_value", cls |-> "Dict", pos |-> "value", pre |-> "{b: ", suf |-> "}", prec |-> 15, need |-> 1],
  [id |-> "dict_unpack", cls |-> "Dict", pos |-> "unpack", pre |-> "{**", suf |-> "}", prec |-> 15, need |-> 6],
  [id |-> "list_star", cls |-> "List", pos |-> "starred", pre |-> "[*", suf |-> "]", prec |-> 15, need |-> 6],
  [id |-> "listcomp_elt", cls |-> "ListComp", pos |-> "elt", pre |-> "[", suf |-> " for x in s]", prec |-> 15, need |-> 1],
  [id |-> "listcomp_iter", cls |-> "ListComp", pos |-> "iter", pre |-> "[x for x in ", suf |-> "]", prec |-> 15, need |-> 2],
  [id |-> "listcomp_if", cls |-> "ListComp", pos |-> "if", pre |-> "[x for x in s if ", suf |-> "]", prec |-> 15, need |-> 2],
  [id |-> "listcomp_iter2", cls |-> "ListComp", pos |-> "iter2", pre |-> "[x for x in s for y in ", suf |-> "]", prec |-> 15, need |-> 2],
  [id |-> "setcomp_elt", cls |-> "SetComp", pos |-> "elt", pre |-> "{", suf |-> " for x in s}", prec |-> 15, need |-> 1],
  [id |-> "genexp_elt", cls |-> "GeneratorExp", pos |-> "elt", pre |-> "(", suf |-> " for x in s)", prec |-> 15, need |-> 1],
  [id |-> "dictcomp_key", cls |-> "DictComp", pos |-> "key", pre |-> "{", suf |-> ": x for x in s}", prec |-> 15, need |-> 1],
  [id |-> "dictcomp_value", cls |-> "DictComp", pos |-> "value", pre |-> "{x: ", suf |-> " for x in s}", prec |-> 15, need |-> 1],
  [id |-> "fstr", cls |-> "JoinedStr", pos |-> "value", pre |-> "f\"{", suf |-> "}\"", prec |-> 15, need |-> 16],
  [id |-> "fstr_conv", cls |-> "JoinedStr", pos |-> "value-conv", pre |-> "f\"{", suf |-> "!r}\"", prec |-> 15, need |-> 16],
  [id |-> "fstr_text", cls |-> "JoinedStr", pos |-> "value-text", pre |-> "f\"p{", suf |-> "}q\"", prec |-> 15, need |-> 16],
  [id |-> "fstr_spec", cls |-> "JoinedStr", pos |-> "value-spec", pre |-> "f\"{", suf |-> ":>4}\"", prec |-> 15, need |-> 16],
  [id |-> "list1", cls |-> "List", pos |-> "single", pre |-> "[", suf |-> "]", prec |-> 15, need |-> 1],
  [id |-> "set1", cls |-> "Set", pos |-> "single", pre |-> "{", suf |-> "}", prec |-> 15, need |-> 1],
  [id |-> "sub_tuple1", cls |-> "Subscript(Tuple)", pos |-> "single", pre |-> "s[", suf |-> ",]", prec |-> 15, need |-> 1],
  [id |-> "tuple_star1", cls |-> "Tuple", pos |-> "starred-single", pre |-> "(*", suf |-> ",)", prec |-> 15, need |-> 6],
  [id |-> "lambda0_body", cls |-> "Lambda", pos |-> "body-noparams", pre |-> "lambda: ", suf |-> "", prec |-> 0, need |-> 0],
  [id |-> "listcomp_if2a", cls |-> "ListComp", pos |-> "if-first-of-2", pre |-> "[x for x in s if ", suf |-> " if b]", prec |-> 15, need |-> 2],
  [id |-> "listcomp_if2b", cls |-> "ListComp", pos |-> "if-second-of-2", pre |-> "[x for x in s if b if ", suf |-> "]", prec |-> 15, need |-> 2],
  [id |-> "chain3_m", cls |-> "Compare(chain3)", pos |-> "middle", pre |-> "a < ", suf |-> " < b < 1", prec |-> 5, need |-> 6],
  [id |-> "ifexp_both_body", cls |-> "IfExp", pos |-> "body+nested-orelse", pre |-> "", suf |-> " if b else a if 1 else 2", prec |-> 1, need |-> 2],
  [id |-> "ifexp_both_else", cls |-> "IfExp", pos |-> "body>IfExp", pre |-> "(a if 1 else 2) if b else ", suf |-> "", prec |-> 1, need |-> 0],
  [id |-> "dict_unpack2", cls |-> "Dict", pos |-> "unpack", pre |-> "{**", suf |-> ", b: 1}", prec |-> 15, need |-> 6]
>>
Leaves == <<
  [text |-> "a", prec |-> 16, deep |-> TRUE, cls |-> "Name"],
  [text |-> "1", prec |-> 15, deep |-> TRUE, cls |-> "Constant(int)"],
  [text |-> "'s'", prec |-> 15, deep |-> TRUE, cls |-> "Constant(str)"],
  [text |-> "()", prec |-> 15, deep |-> FALSE, cls |-> "Tuple.empty"],
  [text |-> "(1,)", prec |-> 15, deep |-> FALSE, cls |-> "Tuple.one"],
  [text |-> "(1, 2)", prec |-> 15, deep |-> FALSE, cls |-> "Tuple.two"],
  [text |-> "[]", prec |-> 15, deep |-> FALSE, cls |-> "List.empty"],
  [text |-> "[1]", prec |-> 15, deep |-> FALSE, cls |-> "List.one"],
  [text |-> "{}", prec |-> 15, deep |-> FALSE, cls |-> "Dict.empty"],
  [text |-> "{1}", prec |-> 15, deep |-> FALSE, cls |-> "Set.one"],
  [text |-> "{1: 2}", prec |-> 15, deep |-> FALSE, cls |-> "Dict.one"],
  [text |-> "{**k}", prec |-> 15, deep |-> FALSE, cls |-> "Dict.unpack"],
  [text |-> "f()", prec |-> 15, deep |-> FALSE, cls |-> "Call.noargs"],
  [text |-> "f(*s)", prec |-> 15, deep |-> FALSE, cls |-> "Call.star-only"],
  [text |-> "f(**k)", prec |-> 15, deep |-> FALSE, cls |-> "Call.dstar"],
  [text |-> "s[:]", prec |-> 15, deep |-> FALSE, cls |-> "Subscript(Slice).all-omitted"],
  [text |-> "s[::]", prec |-> 15, deep |-> FALSE, cls |-> "Subscript(Slice).all-omitted2"],
  [text |-> "s[()]", prec |-> 15, deep |-> FALSE, cls |-> "Subscript(Tuple).empty"],
  [text |-> "lambda: 1", prec |-> 0, deep |-> FALSE, cls |-> "Lambda"],
  [text |-> "''", prec |-> 15, deep |-> FALSE, cls |-> "Constant(str).empty"],
  [text |-> "b''", prec |-> 15, deep |-> FALSE, cls |-> "Constant(bytes).empty"],
  [text |-> "f\"\"", prec |-> 15, deep |-> FALSE, cls |-> "JoinedStr.empty"],
  [text |-> "[x for x in s]", prec |-> 15, deep |-> FALSE, cls |-> "ListComp.noif"],
  [text |-> "[x for x in s if a if b]", prec |-> 15, deep |-> FALSE, cls |-> "ListComp.two-ifs"],
  [text |-> "a < b < 1", prec |-> 5, deep |-> FALSE, cls |-> "Compare(chain)"]
>>
\* the plain leaves are wrapped up to MaxWraps times; the degenerate atoms (empty / one-element containers, calls
\* without arguments, slices with every part omitted, lambda without parameters, empty literals ...) once: each
\* stands in every position of every form
DeepLeaves == {Leaves[i].text : i \in {j \in 1..Len(Leaves) : Leaves[j].deep}}
VARIABLES spine, leaf, ref, min, prec, pc
vars == <<spine, leaf, ref, min, prec, pc>>
Init == /\ \E i \in 1..Len(Leaves) : /\ leaf = Leaves[i].text /\ min = Leaves[i].text
                                     /\ ref = "(" \o Leaves[i].text \o ")" /\ prec = Leaves[i].prec
        /\ spine = <<>> /\ pc = "build"
\* the current expression becomes the child of form i
Wrap(i) == LET f == Forms[i] IN
  /\ pc = "build" /\ Len(spine) < (IF leaf \in DeepLeaves THEN MaxWraps ELSE 1)
  /\ spine' = <<f.id>> \o spine
  /\ ref' = "(" \o f.pre \o ref \o f.suf \o ")"
  /\ min' = f.pre \o (IF prec < f.need THEN "(" \o min \o ")" ELSE min) \o f.suf
  /\ prec' = f.prec
  /\ UNCHANGED <<leaf, pc>>
Emit == /\ pc = "build" /\ pc' = "printed"
        /\ PrintT(ToJson([spine |-> spine, leaf |-> leaf, ref |-> ref, min |-> min]))
        /\ UNCHANGED <<spine, leaf, ref, min, prec>>
Next == (\E i \in 1..Len(Forms) : Wrap(i)) \/ Emit
Spec == Init /\ [][Next]_vars
FormIds == {Forms[i].id : i \in 1..Len(Forms)}
FormOf(id) == CHOOSE f \in {Forms[i] : i \in 1..Len(Forms)} : f.id = id
\* the table is a function of the id; levels are within range; a position never asks for more than a bare name
TableOK == /\ \A i, j \in 1..Len(Forms) : Forms[i].id = Forms[j].id => i = j
           /\ \A i \in 1..Len(Forms) : Forms[i].prec \in 0..15 /\ Forms[i].need \in 0..16
SpineOK == /\ Len(spine) <= MaxWraps
           /\ \A k \in 1..Len(spine) : spine[k] \in FormIds
           /\ (spine # <<>> => prec = FormOf(spine[1]).prec)
=============================================================================
