---------------------------- MODULE Trace_Lookup ----------------------------
(***************************************************************************)
(* Validates histories recorded from a real mako.lookup.TemplateLookup     *)
(* against Lookup.tla.  One initial state per recorded trace (so a batch   *)
(* is validated by one TLC start, in parallel).  Verdicts are total: every *)
(* trace prints exactly one JSON line {t, ok, i, clause, findings}; a      *)
(* rejection names the event index and the first failing clause.           *)
(* The property invariants are evaluated after every consumed event; a     *)
(* violation of PutServed is recorded in `findings` and validation goes on *)
(* (so the rest of the trace is still checked); any other invariant        *)
(* violation or any disagreement with the spec's next state rejects.       *)
(***************************************************************************)
EXTENDS Lookup, Json, IOUtils, TLCExt
Traces == JsonDeserialize(IOEnv.TRACE_FILE)
VARIABLES tr, l, verdict, findings
tvars == <<vars, tr, l, verdict, findings>>
Ev == Traces[tr].events
TInit == Init /\ tr \in 1..Len(Traces) /\ l = 1 /\ verdict = "run" /\ findings = {}
SeqToSet(s) == {s[i] : i \in 1..Len(s)}
\* which conjunct of the comparison fails (first one), "" if none
GetClause(e) ==
  IF e.res # last'.res THEN "res"
  ELSE IF e.res = "tmpl" /\ e.ver # last'.ver THEN "ver"
  ELSE IF e.res = "tmpl" /\ e.obj # last'.obj THEN "obj"
  ELSE IF SeqToSet(e.keys) # Cached(coll') THEN "keys"
  ELSE IF e.built # built' THEN "built"
  ELSE ""
HasClause(e) ==
  IF e.res = "true" /\ last'.res # "tmpl" THEN "res"
  ELSE IF e.res = "false" /\ last'.res \notin {"toplevel_exc", "lookup_exc"} THEN "res"
  ELSE IF e.res \in {"compile_error", "os_error"} /\ last'.res # e.res THEN "res"
  ELSE IF SeqToSet(e.keys) # Cached(coll') THEN "keys"
  ELSE IF e.built # built' THEN "built"
  ELSE ""
PutClause(e) ==
  IF e.obj # last'.obj THEN "obj"
  ELSE IF SeqToSet(e.keys) # Cached(coll') THEN "keys"
  ELSE IF e.built # built' THEN "built"
  ELSE ""
InvClause == IF ~Fresh' THEN "inv:Fresh" ELSE IF ~SizeBound' THEN "inv:SizeBound" ELSE ""
Report(ok, i, clause, fnd) == PrintT(ToJson([t |-> Traces[tr].id, ok |-> ok, i |-> i, clause |-> clause, findings |-> fnd]))
Finish(c0) ==   \* bookkeeping after one consumed event; c0 = failing comparison clause or ""
  LET c == IF c0 # "" THEN c0 ELSE InvClause
      f == IF PutServed' /\ PutFileServed' THEN findings ELSE findings \cup {"PutServed"}
  IN /\ l' = l + 1 /\ findings' = f
     /\ verdict' = (IF c # "" THEN "fail" ELSE IF l + 1 > Len(Ev) THEN "ok" ELSE "run")
     /\ (c # "" => Report(FALSE, l, c, f))
     /\ ((c = "" /\ l + 1 > Len(Ev)) => Report(TRUE, l, "", f))
TStep ==
  /\ verdict = "run" /\ l <= Len(Ev) /\ UNCHANGED tr
  /\ LET e == Ev[l] IN
     \/ /\ e.ev = "tick" /\ Tick /\ Finish("")
     \/ /\ e.ev = "write" /\ WriteFile(e.d, e.u, e.kind)
        /\ Finish(IF fs'[e.d][e.u].ver = e.ver /\ fs'[e.d][e.u].mt = e.mt THEN "" ELSE "write-args")
     \/ /\ e.ev = "delete" /\ DeleteFile(e.d, e.u) /\ Finish("")
     \/ /\ e.ev = "get" /\ Get(e.u) /\ Finish(GetClause(e))
     \/ /\ e.ev = "has" /\ Has(e.u) /\ Finish(HasClause(e))
     \/ /\ e.ev = "put" /\ Put(e.u, TRUE) /\ Finish(PutClause(e))
     \/ /\ e.ev = "puttmpl" /\ Put(e.u, FALSE) /\ Finish(PutClause(e))
     \/ /\ e.ev = "putfile" /\ PutFile(e.u, e.d, e.v) /\ Finish(PutClause(e))
\* an event whose spec action is not enabled at all (e.g. delete of a file the model does not have)
TStuck ==
  /\ verdict = "run" /\ l <= Len(Ev) /\ ~ENABLED TStep
  /\ verdict' = "fail" /\ Report(FALSE, l, "not-enabled", findings) /\ UNCHANGED <<vars, tr, l, findings>>
TEmpty == /\ verdict = "run" /\ Len(Ev) = 0 /\ verdict' = "ok" /\ Report(TRUE, 0, "", findings) /\ UNCHANGED <<vars, tr, l, findings>>
TNext == TStep \/ TStuck \/ TEmpty
TSpec == TInit /\ [][TNext]_tvars
=============================================================================
