------------------------------ MODULE Remargin ------------------------------
(***************************************************************************)
(* Re-margining of <% %> / <%! %> blocks (property C19, first clause): a   *)
(* block written at any uniform indentation keeps its control flow and the *)
(* content of every string literal, multi-line strings and backslash       *)
(* continuations included.                                                 *)
(*                                                                         *)
(* Mako removes the margin line by line in two places, both tracking       *)
(* quotes with regular expressions: mako/pygen.py adjust_whitespace (used  *)
(* by the lexer for every Python block) and PythonPrinter                  *)
(* ._flush_adjusted_lines/_in_multi_line (write_indented_block).           *)
(*                                                                         *)
(* This is the reference machine: a block is a sequence of physical lines; *)
(* a line kind is its sequence of lexical items.  The machine keeps the    *)
(* TRUE Python lexical state -- outside strings (code), inside a triple    *)
(* single-quoted string (tsq), triple double-quoted (tdq), inside a string *)
(* with single (sqc) or double (dqc) quotes that was *)
(* left open with backslash-newline (sqc); pending backslash continuation  *)
(* (cont); indentation level due for the next statement (lvl) -- and       *)
(* decides per line:                                                       *)
(*    strip   the line starts a logical line: its margin goes, its         *)
(*            indentation relative to the margin (rel) stays               *)
(*    either  the line continues a logical line outside strings: leading   *)
(*            blanks are insignificant                                     *)
(*    keep    the line starts inside a string: it is string content and    *)
(*            stays exactly as written                                     *)
(* AddLine extends the block by one line kind that is lexically possible   *)
(* in the current state; every complete block (back in code mode, nothing  *)
(* pending) prints {lines, flags, rels}.  The harness writes each block at *)
(* margins of 0..12 blanks and tabs, builds the reference text from the    *)
(* flags, lets CPython execute it, and compares with what Mako's two       *)
(* re-indenters make of the block.                                         *)
(***************************************************************************)
EXTENDS Naturals, Sequences, TLC, Json
CONSTANT MaxLines
Kinds == <<
  [id |-> "a", start |-> "code", end |-> "code", cont |-> FALSE, opens |-> FALSE, stmt |-> TRUE, needcont |-> FALSE, toks |-> <<"code">>],
  [id |-> "sh", start |-> "code", end |-> "code", cont |-> FALSE, opens |-> FALSE, stmt |-> TRUE, needcont |-> FALSE, toks |-> <<"code", "str">>],
  [id |-> "s3s", start |-> "code", end |-> "code", cont |-> FALSE, opens |-> FALSE, stmt |-> TRUE, needcont |-> FALSE, toks |-> <<"code", "str">>],
  [id |-> "s3d", start |-> "code", end |-> "code", cont |-> FALSE, opens |-> FALSE, stmt |-> TRUE, needcont |-> FALSE, toks |-> <<"code", "str">>],
  [id |-> "esc", start |-> "code", end |-> "code", cont |-> FALSE, opens |-> FALSE, stmt |-> TRUE, needcont |-> FALSE, toks |-> <<"code", "str">>],
  [id |-> "tab", start |-> "code", end |-> "code", cont |-> FALSE, opens |-> FALSE, stmt |-> TRUE, needcont |-> FALSE, toks |-> <<"code", "str">>],
  [id |-> "c", start |-> "code", end |-> "code", cont |-> FALSE, opens |-> FALSE, stmt |-> FALSE, needcont |-> FALSE, toks |-> <<"comment">>],
  [id |-> "c3", start |-> "code", end |-> "code", cont |-> FALSE, opens |-> FALSE, stmt |-> FALSE, needcont |-> FALSE, toks |-> <<"comment">>],
  [id |-> "tc3", start |-> "code", end |-> "code", cont |-> FALSE, opens |-> FALSE, stmt |-> TRUE, needcont |-> FALSE, toks |-> <<"code", "comment">>],
  [id |-> "f3", start |-> "code", end |-> "code", cont |-> FALSE, opens |-> FALSE, stmt |-> TRUE, needcont |-> FALSE, toks |-> <<"code", "open3s", "text", "close3s", "code", "str">>],
  [id |-> "f3x", start |-> "code", end |-> "code", cont |-> FALSE, opens |-> FALSE, stmt |-> TRUE, needcont |-> FALSE, toks |-> <<"code", "open3s", "text", "close3s", "code", "open3d", "text", "close3d">>],
  [id |-> "o3s", start |-> "code", end |-> "tsq", cont |-> FALSE, opens |-> FALSE, stmt |-> TRUE, needcont |-> FALSE, toks |-> <<"code", "open3s", "text">>],
  [id |-> "o3d", start |-> "code", end |-> "tdq", cont |-> FALSE, opens |-> FALSE, stmt |-> TRUE, needcont |-> FALSE, toks |-> <<"code", "open3d", "text">>],
  [id |-> "ohs", start |-> "code", end |-> "tsq", cont |-> FALSE, opens |-> FALSE, stmt |-> TRUE, needcont |-> FALSE, toks |-> <<"code", "str", "code", "open3s", "text">>],
  [id |-> "oqd", start |-> "code", end |-> "tdq", cont |-> FALSE, opens |-> FALSE, stmt |-> TRUE, needcont |-> FALSE, toks |-> <<"code", "str", "code", "open3d", "text">>],
  [id |-> "ocd", start |-> "code", end |-> "tdq", cont |-> FALSE, opens |-> FALSE, stmt |-> TRUE, needcont |-> FALSE, toks |-> <<"code", "open3s", "text", "close3s", "code", "open3d", "text">>],
  [id |-> "bs", start |-> "code", end |-> "code", cont |-> TRUE, opens |-> FALSE, stmt |-> TRUE, needcont |-> FALSE, toks |-> <<"code", "str", "code", "bs1">>],
  [id |-> "osq", start |-> "code", end |-> "sqc", cont |-> FALSE, opens |-> FALSE, stmt |-> TRUE, needcont |-> FALSE, toks |-> <<"code", "opensq", "text", "bs1">>],
  [id |-> "osq3", start |-> "code", end |-> "sqc", cont |-> FALSE, opens |-> FALSE, stmt |-> TRUE, needcont |-> FALSE, toks |-> <<"code", "opensq", "text", "bs3">>],
  [id |-> "odq", start |-> "code", end |-> "dqc", cont |-> FALSE, opens |-> FALSE, stmt |-> TRUE, needcont |-> FALSE, toks |-> <<"code", "opendq", "text", "bs1">>],
  [id |-> "odq3", start |-> "code", end |-> "dqc", cont |-> FALSE, opens |-> FALSE, stmt |-> TRUE, needcont |-> FALSE, toks |-> <<"code", "opendq", "text", "bs3">>],
  [id |-> "sb2", start |-> "code", end |-> "code", cont |-> FALSE, opens |-> FALSE, stmt |-> TRUE, needcont |-> FALSE, toks |-> <<"code", "opensq", "text", "bs2", "closesq">>],
  [id |-> "cb1", start |-> "code", end |-> "code", cont |-> FALSE, opens |-> FALSE, stmt |-> FALSE, needcont |-> FALSE, toks |-> <<"comment", "bs1">>],
  [id |-> "cb2", start |-> "code", end |-> "code", cont |-> FALSE, opens |-> FALSE, stmt |-> FALSE, needcont |-> FALSE, toks |-> <<"comment", "bs2">>],
  [id |-> "cb3", start |-> "code", end |-> "code", cont |-> FALSE, opens |-> FALSE, stmt |-> FALSE, needcont |-> FALSE, toks |-> <<"comment", "bs3">>],
  [id |-> "tcb1", start |-> "code", end |-> "code", cont |-> FALSE, opens |-> FALSE, stmt |-> TRUE, needcont |-> FALSE, toks |-> <<"code", "comment", "bs1">>],
  [id |-> "if", start |-> "code", end |-> "code", cont |-> FALSE, opens |-> TRUE, stmt |-> TRUE, needcont |-> FALSE, toks |-> <<"code", "colon">>],
  [id |-> "blank", start |-> "code", end |-> "code", cont |-> FALSE, opens |-> FALSE, stmt |-> FALSE, needcont |-> FALSE, toks |-> <<>>],
  [id |-> "kq", start |-> "code", end |-> "code", cont |-> FALSE, opens |-> FALSE, stmt |-> TRUE, needcont |-> TRUE, toks |-> <<"str">>],
  [id |-> "kf", start |-> "code", end |-> "code", cont |-> FALSE, opens |-> FALSE, stmt |-> TRUE, needcont |-> TRUE, toks |-> <<"open3s", "text", "close3s", "code", "str">>],
  [id |-> "k3", start |-> "code", end |-> "tsq", cont |-> FALSE, opens |-> FALSE, stmt |-> TRUE, needcont |-> TRUE, toks |-> <<"open3s", "text">>],
  [id |-> "k3d", start |-> "code", end |-> "tdq", cont |-> FALSE, opens |-> FALSE, stmt |-> TRUE, needcont |-> TRUE, toks |-> <<"open3d", "text">>],
  [id |-> "kbs", start |-> "code", end |-> "code", cont |-> TRUE, opens |-> FALSE, stmt |-> TRUE, needcont |-> TRUE, toks |-> <<"str", "code", "bs1">>],
  [id |-> "kc3", start |-> "code", end |-> "code", cont |-> FALSE, opens |-> FALSE, stmt |-> TRUE, needcont |-> TRUE, toks |-> <<"str", "comment">>],
  [id |-> "kc", start |-> "code", end |-> "code", cont |-> FALSE, opens |-> FALSE, stmt |-> TRUE, needcont |-> TRUE, toks |-> <<"str", "comment">>],
  [id |-> "o3sb", start |-> "code", end |-> "tsq", cont |-> FALSE, opens |-> FALSE, stmt |-> TRUE, needcont |-> FALSE, toks |-> <<"code", "open3s", "text", "bs1">>],
  [id |-> "xs", start |-> "tsq", end |-> "tsq", cont |-> FALSE, opens |-> FALSE, stmt |-> TRUE, needcont |-> FALSE, toks |-> <<"text">>],
  [id |-> "xos", start |-> "tsq", end |-> "tsq", cont |-> FALSE, opens |-> FALSE, stmt |-> TRUE, needcont |-> FALSE, toks |-> <<"text">>],
  [id |-> "xhs", start |-> "tsq", end |-> "tsq", cont |-> FALSE, opens |-> FALSE, stmt |-> TRUE, needcont |-> FALSE, toks |-> <<"text">>],
  [id |-> "xbs", start |-> "tsq", end |-> "tsq", cont |-> FALSE, opens |-> FALSE, stmt |-> TRUE, needcont |-> FALSE, toks |-> <<>>],
  [id |-> "xbss", start |-> "tsq", end |-> "tsq", cont |-> FALSE, opens |-> FALSE, stmt |-> TRUE, needcont |-> FALSE, toks |-> <<"text", "bs1">>],
  [id |-> "xb2s", start |-> "tsq", end |-> "tsq", cont |-> FALSE, opens |-> FALSE, stmt |-> TRUE, needcont |-> FALSE, toks |-> <<"text", "bs2">>],
  [id |-> "xb3s", start |-> "tsq", end |-> "tsq", cont |-> FALSE, opens |-> FALSE, stmt |-> TRUE, needcont |-> FALSE, toks |-> <<"text", "bs3">>],
  [id |-> "xb4s", start |-> "tsq", end |-> "tsq", cont |-> FALSE, opens |-> FALSE, stmt |-> TRUE, needcont |-> FALSE, toks |-> <<"text", "bs4">>],
  [id |-> "zs", start |-> "tsq", end |-> "code", cont |-> FALSE, opens |-> FALSE, stmt |-> TRUE, needcont |-> FALSE, toks |-> <<"text", "close3s">>],
  [id |-> "zcs", start |-> "tsq", end |-> "code", cont |-> FALSE, opens |-> FALSE, stmt |-> TRUE, needcont |-> FALSE, toks |-> <<"text", "close3s", "code", "str">>],
  [id |-> "zms", start |-> "tsq", end |-> "code", cont |-> FALSE, opens |-> FALSE, stmt |-> TRUE, needcont |-> FALSE, toks |-> <<"text", "close3s", "comment">>],
  [id |-> "zbss", start |-> "tsq", end |-> "code", cont |-> TRUE, opens |-> FALSE, stmt |-> TRUE, needcont |-> FALSE, toks |-> <<"text", "close3s", "code", "bs1">>],
  [id |-> "zos", start |-> "tsq", end |-> "tdq", cont |-> FALSE, opens |-> FALSE, stmt |-> TRUE, needcont |-> FALSE, toks |-> <<"text", "close3s", "code", "open3d", "text">>],
  [id |-> "xd", start |-> "tdq", end |-> "tdq", cont |-> FALSE, opens |-> FALSE, stmt |-> TRUE, needcont |-> FALSE, toks |-> <<"text">>],
  [id |-> "xod", start |-> "tdq", end |-> "tdq", cont |-> FALSE, opens |-> FALSE, stmt |-> TRUE, needcont |-> FALSE, toks |-> <<"text">>],
  [id |-> "xhd", start |-> "tdq", end |-> "tdq", cont |-> FALSE, opens |-> FALSE, stmt |-> TRUE, needcont |-> FALSE, toks |-> <<"text">>],
  [id |-> "xbd", start |-> "tdq", end |-> "tdq", cont |-> FALSE, opens |-> FALSE, stmt |-> TRUE, needcont |-> FALSE, toks |-> <<>>],
  [id |-> "xbsd", start |-> "tdq", end |-> "tdq", cont |-> FALSE, opens |-> FALSE, stmt |-> TRUE, needcont |-> FALSE, toks |-> <<"text", "bs1">>],
  [id |-> "xb2d", start |-> "tdq", end |-> "tdq", cont |-> FALSE, opens |-> FALSE, stmt |-> TRUE, needcont |-> FALSE, toks |-> <<"text", "bs2">>],
  [id |-> "xb3d", start |-> "tdq", end |-> "tdq", cont |-> FALSE, opens |-> FALSE, stmt |-> TRUE, needcont |-> FALSE, toks |-> <<"text", "bs3">>],
  [id |-> "xb4d", start |-> "tdq", end |-> "tdq", cont |-> FALSE, opens |-> FALSE, stmt |-> TRUE, needcont |-> FALSE, toks |-> <<"text", "bs4">>],
  [id |-> "zd", start |-> "tdq", end |-> "code", cont |-> FALSE, opens |-> FALSE, stmt |-> TRUE, needcont |-> FALSE, toks |-> <<"text", "close3d">>],
  [id |-> "zcd", start |-> "tdq", end |-> "code", cont |-> FALSE, opens |-> FALSE, stmt |-> TRUE, needcont |-> FALSE, toks |-> <<"text", "close3d", "code", "str">>],
  [id |-> "zmd", start |-> "tdq", end |-> "code", cont |-> FALSE, opens |-> FALSE, stmt |-> TRUE, needcont |-> FALSE, toks |-> <<"text", "close3d", "comment">>],
  [id |-> "zbsd", start |-> "tdq", end |-> "code", cont |-> TRUE, opens |-> FALSE, stmt |-> TRUE, needcont |-> FALSE, toks |-> <<"text", "close3d", "code", "bs1">>],
  [id |-> "zod", start |-> "tdq", end |-> "tsq", cont |-> FALSE, opens |-> FALSE, stmt |-> TRUE, needcont |-> FALSE, toks |-> <<"text", "close3d", "code", "open3s", "text">>],
  [id |-> "q2", start |-> "sqc", end |-> "code", cont |-> FALSE, opens |-> FALSE, stmt |-> TRUE, needcont |-> FALSE, toks |-> <<"text", "closesq">>],
  [id |-> "qc1", start |-> "sqc", end |-> "sqc", cont |-> FALSE, opens |-> FALSE, stmt |-> TRUE, needcont |-> FALSE, toks |-> <<"text", "bs1">>],
  [id |-> "qc3", start |-> "sqc", end |-> "sqc", cont |-> FALSE, opens |-> FALSE, stmt |-> TRUE, needcont |-> FALSE, toks |-> <<"text", "bs3">>],
  [id |-> "q2d", start |-> "dqc", end |-> "code", cont |-> FALSE, opens |-> FALSE, stmt |-> TRUE, needcont |-> FALSE, toks |-> <<"text", "closedq">>],
  [id |-> "qd1", start |-> "dqc", end |-> "dqc", cont |-> FALSE, opens |-> FALSE, stmt |-> TRUE, needcont |-> FALSE, toks |-> <<"text", "bs1">>]
>>
OddRuns == {"bs1", "bs3"}        \* a run of n backslashes at the end of a physical line
EvenRuns == {"bs2", "bs4"}
\* the token automaton: lexical mode after an item ("bad": the item cannot occur there)
Delta(m, t) ==
  CASE m = "code" /\ t \in {"code", "str", "colon", "bs1"} -> "code"   \* outside strings only ONE backslash may end a line
    [] m = "code" /\ t = "comment" -> "eol"             \* the rest of the line is comment
    [] m = "code" /\ t = "open3s" -> "tsq"
    [] m = "code" /\ t = "open3d" -> "tdq"
    [] m = "code" /\ t = "opensq" -> "sq"
    [] m = "code" /\ t = "opendq" -> "dq"
    [] m \in {"sq", "dq"} /\ t = "text" -> m
    [] m \in {"sq", "dq"} /\ t \in EvenRuns -> m            \* escaped backslashes only
    [] m = "sq" /\ t \in OddRuns -> "sqc"                   \* (escaped backslashes and) backslash-newline
    [] m = "dq" /\ t \in OddRuns -> "dqc"
    [] m = "sqc" /\ t = "text" -> "sq"
    [] m = "dqc" /\ t = "text" -> "dq"
    [] m = "sq" /\ t = "closesq" -> "code"
    [] m = "dq" /\ t = "closedq" -> "code"
    [] m \in {"tsq", "tdq"} /\ t \in {"text"} \cup OddRuns \cup EvenRuns -> m
    [] m = "tsq" /\ t = "close3s" -> "code"
    [] m = "tdq" /\ t = "close3d" -> "code"
    [] m = "eol" -> "eol"
    [] OTHER -> "bad"
RECURSIVE Fold(_, _)
Fold(m, toks) == IF toks = <<>> THEN m ELSE Fold(Delta(m, Head(toks)), Tail(toks))
\* a '...' / "..." string still open at the end of the line without continuation is not Python
EndMode(m, toks) == LET e == Fold(m, toks) IN IF e = "eol" THEN "code" ELSE IF e \in {"sq", "dq"} THEN "bad" ELSE e
\* Python's rule for the pending continuation: the line ends, outside strings and comments, in one backslash
ContOf(m, toks) == /\ toks # <<>> /\ toks[Len(toks)] \in OddRuns
                   /\ Fold(m, SubSeq(toks, 1, Len(toks) - 1)) = "code"

VARIABLES lines, flags, rels, mode, cont, lvl, due, pc
vars == <<lines, flags, rels, mode, cont, lvl, due, pc>>
Init == /\ lines = <<>> /\ flags = <<>> /\ rels = <<>> /\ mode = "code" /\ cont = FALSE
        /\ lvl = 0 /\ due = FALSE /\ pc = "build"
Starts == mode = "code" /\ ~cont           \* the next physical line starts a logical line
AddLine(i) == LET k == Kinds[i] IN
  /\ pc = "build" /\ Len(lines) < MaxLines
  /\ k.start = mode /\ (k.needcont <=> (mode = "code" /\ cont))
  /\ (Len(lines) = 0 => k.stmt)                \* a block begins with a statement
  /\ lines' = Append(lines, k.id)
  /\ flags' = Append(flags, IF Starts THEN "strip" ELSE IF mode = "code" THEN "either" ELSE "keep")
  /\ rels' = Append(rels, IF Starts /\ k.stmt THEN lvl ELSE 0)
  /\ mode' = EndMode(mode, k.toks)
  /\ cont' = (k.cont /\ mode' = "code")
  \* a statement that ends here fixes the level of the next one: one deeper after a block opener, else back to 0
  /\ IF Starts /\ k.stmt
     THEN /\ lvl' = (IF k.opens THEN lvl + 1 ELSE 0) /\ due' = k.opens
     ELSE UNCHANGED <<lvl, due>>
  /\ UNCHANGED pc
Complete == mode = "code" /\ ~cont /\ ~due /\ Len(lines) > 0
Emit == /\ pc = "build" /\ Complete /\ pc' = "printed"
        /\ PrintT(ToJson([lines |-> lines, flags |-> flags, rels |-> rels]))
        /\ UNCHANGED <<lines, flags, rels, mode, cont, lvl, due>>
Next == (\E i \in 1..Len(Kinds) : AddLine(i)) \/ Emit
Spec == Init /\ [][Next]_vars
\* the declared start/end modes of every line kind are what the token automaton computes
TableConsistent == \A i \in 1..Len(Kinds) :
                      /\ EndMode(Kinds[i].start, Kinds[i].toks) = Kinds[i].end
                      /\ Kinds[i].start \in {"code", "tsq", "tdq", "sqc", "dqc"}
                      /\ Kinds[i].cont = ContOf(Kinds[i].start, Kinds[i].toks)
\* string content is never re-margined; every line outside strings that starts a logical line is
Modes == {"code", "tsq", "tdq", "sqc", "dqc"}
Shape == /\ Len(flags) = Len(lines) /\ Len(rels) = Len(lines) /\ mode \in Modes
         /\ \A j \in 1..Len(flags) : flags[j] \in {"strip", "either", "keep"}
         /\ \A j \in 1..Len(flags) : (flags[j] # "strip" => rels[j] = 0)
         /\ (Len(lines) > 0 => flags[1] = "strip")
=============================================================================
