------------------------- MODULE MC_InheritCompile -------------------------
(* C06, compile-time clause: every template shape of <= MaxItems named blocks (names b, c), each placed   *)
(* under a container path of length <= MaxPath over {def, call, anon, blk}; prints shape + verdict        *)
(* (DupBlockRejected / BlockInDefRejected).  One state per shape.  Mirrors mako/codegen.py                *)
(* _Identifiers.visitBlockTag (named block under a DefTag / CallTag) and _check_name_exists.              *)
EXTENDS Integers, Sequences, FiniteSets, TLC, Json
CONSTANTS MaxItems, MaxPath
VARIABLES shape, layout      \* layout: every container on its own source line / everything on one line (no effect on the verdict)
Conts == {"def", "call", "anon", "blk"}
Paths == UNION {[1..n -> Conts] : n \in 0..MaxPath}
Items == [path : Paths, name : {"b", "c"}]
Shapes == UNION {[1..n -> Items] : n \in 1..MaxItems}
Range(s) == {s[k] : k \in 1..Len(s)}
Rejected(sh) ==
  \/ \E k \in 1..Len(sh) : Range(sh[k].path) \cap {"def", "call"} # {}      \* a named block inside a def or call
  \/ \E k1, k2 \in 1..Len(sh) : k1 < k2 /\ sh[k1].name = sh[k2].name          \* two blocks of one name
CInit == shape \in Shapes /\ layout \in {"lines", "oneline"}
CNext == UNCHANGED <<shape, layout>>
CSpec == CInit /\ [][CNext]_<<shape, layout>>
DupBlockRejected == (\E k1, k2 \in 1..Len(shape) : k1 < k2 /\ shape[k1].name = shape[k2].name) => Rejected(shape)
BlockInDefRejected == (\E k \in 1..Len(shape) : \E q \in 1..Len(shape[k].path) : shape[k].path[q] \in {"def", "call"}) => Rejected(shape)
OthersAccepted == Rejected(shape) => \/ \E k1, k2 \in 1..Len(shape) : k1 < k2 /\ shape[k1].name = shape[k2].name
                                     \/ \E k \in 1..Len(shape) : \E q \in 1..Len(shape[k].path) : shape[k].path[q] \in {"def", "call"}
CEmit == ~(PrintT(ToJson([shape |-> shape, layout |-> layout, rejected |-> Rejected(shape)])) /\ FALSE)
=============================================================================
