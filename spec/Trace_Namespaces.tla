-------------------------- MODULE Trace_Namespaces --------------------------
(***************************************************************************)
(* Validates sessions recorded from a real TemplateLookup against the      *)
(* "uri" family of Namespaces.tla.  A trace is {id, cfg, out}: cfg is a    *)
(* session [fam |-> "uri", layout, reqs] (any number of requests, indices  *)
(* into Dirs / Spellings), out the observed token per request.  One        *)
(* initial state per trace; the Resolve action of Namespaces.tla runs the  *)
(* session (memo included, MemoConsistent etc. evaluated on the way); the  *)
(* terminal step compares and prints one verdict {t, ok, i, exp}.          *)
(***************************************************************************)
EXTENDS Namespaces, Json, IOUtils
Traces == JsonDeserialize(IOEnv.TRACE_FILE)
VARIABLES tr, verdict
tvars == <<vars, tr, verdict>>
TInit == \E t \in 1..Len(Traces) : tr = t /\ verdict = "run" /\ InitWith(Traces[t].cfg)
Obs == Traces[tr].out
MinLen == IF Len(out) < Len(Obs) THEN Len(out) ELSE Len(Obs)
Diffs == {k \in 1..MinLen : out[k] # Obs[k]}
FirstDiff == IF Diffs # {} THEN CHOOSE k \in Diffs : \A k2 \in Diffs : k <= k2
             ELSE IF Len(out) # Len(Obs) THEN MinLen + 1 ELSE 0
Judge ==
  /\ phase = "done" /\ verdict = "run"
  /\ LET d == FirstDiff IN
     /\ verdict' = (IF d = 0 THEN "ok" ELSE "fail")
     /\ PrintT(ToJson([t |-> Traces[tr].id, ok |-> (d = 0), i |-> d, exp |-> IF d = 0 \/ d > Len(out) THEN "END" ELSE out[d]]))
  /\ UNCHANGED <<vars, tr>>
TNext == (Next /\ UNCHANGED <<tr, verdict>>) \/ Judge
TSpec == TInit /\ [][TNext]_tvars
=============================================================================
