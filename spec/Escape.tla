------------------------------- MODULE Escape -------------------------------
(***************************************************************************)
(* Escaping filters of Mako (property C10): h, x, u, entity, trim,         *)
(* decode.<enc> and the codec error handler "htmlentityreplace".           *)
(*                                                                         *)
(* A string is a sequence of CHARACTER NAMES.  A printable ASCII character *)
(* is named by itself ("&", "a"); any other character by "U+XXXX".  The    *)
(* constant Alphabet gives, for every input character used, the facts the  *)
(* filters depend on (code point, UTF-8 octets, the named HTML entity if   *)
(* any, str.isspace, ASCII-alphanumeric, the charsets that can encode it); *)
(* these facts come from CPython's tables (html.entities, codecs, str),    *)
(* which are trusted.  Everything the FILTERS decide is written here, in   *)
(* the shape of mako/filters.py:                                           *)
(*   XEsc      xml_escape: one regex pass over [&<"'>] with the table      *)
(*             xml_escapes                                                 *)
(*   HEsc      html_escape = markupsafe.escape: the same five characters   *)
(*   UEsc      url_escape: encode to UTF-8 octets, then quote_plus octet   *)
(*             by octet (unreserved kept, space -> "+", else %XX)          *)
(*   EntEsc    XMLEntityEscaper.escape_entities: str.translate with the    *)
(*             table of named entities                                     *)
(*   Trim      trim: str.strip()                                           *)
(*   DecodeF   Decode.__getattr__: the three-way decode                    *)
(*   Encode    str.encode(charset, "htmlentityreplace"): the codec calls   *)
(*             htmlentityreplace_errors for each maximal unencodable run;  *)
(*             the handler returns XMLEntityEscaper.escape(run) (regex     *)
(*             ["&<>]|[^\x00-\x7f] -> named entity or &#xHEX;) and the     *)
(*             codec resumes after the run (util.FastEncodingBuffer        *)
(*             .getvalue applies this to the whole output)                 *)
(* together with reference DECODERS for exactly the forms emitted          *)
(* (RefDecode for &name; &#DDD; &#xHHH;, UDecode for %XX and "+").         *)
(*                                                                         *)
(* TLC enumerates the strings itself (Grow appends one character) and      *)
(* keeps the outputs of all filters in `out`; the property is the          *)
(* conjunction of Neutral, Invertible, UrlSafe, UrlInvertible,             *)
(* EntityExact, TrimOnlyEnds, DecodeStr, HandlerTotal; Homomorphic and     *)
(* TrimComposes carry the per-string results over to strings of any length.*)
(***************************************************************************)
EXTENDS Naturals, Sequences, FiniteSets, TLC

CONSTANTS Alphabet,   \* function: character name |-> [n, cp, utf8, ent, ws, enc], the facts of every input character
          GenNames,   \* names of the characters strings are enumerated over (a subset of the Alphabet's names)
          MaxLen,     \* bound on the length of an enumerated string (model bound)
          Charsets    \* target charsets of the error handler

(* ------------------------------------------------------------ characters *)
Names == DOMAIN Alphabet
Sym == Alphabet
IsInput(c) == c \in Names
IsAscii(c) == Sym[c].cp < 128
HasEntity(c) == Sym[c].ent # <<>>
HexDigit == <<"0", "1", "2", "3", "4", "5", "6", "7", "8", "9", "A", "B", "C", "D", "E", "F">>
Digits == <<"0", "1", "2", "3", "4", "5", "6", "7", "8", "9">>
Upper == <<"A", "B", "C", "D", "E", "F", "G", "H", "I", "J", "K", "L", "M", "N", "O", "P", "Q", "R", "S", "T", "U", "V", "W", "X", "Y", "Z">>
Lower == <<"a", "b", "c", "d", "e", "f", "g", "h", "i", "j", "k", "l", "m", "n", "o", "p", "q", "r", "s", "t", "u", "v", "w", "x", "y", "z">>
SeqSet(s) == {s[i] : i \in DOMAIN s}
\* value of a digit character, 99 if it is none ("a".."f" are accepted by the decoders as well)
Pos(seq, c) == IF \E i \in DOMAIN seq : seq[i] = c THEN CHOOSE i \in DOMAIN seq : seq[i] = c ELSE 0
HexVal(c) == IF Pos(HexDigit, c) > 0 THEN Pos(HexDigit, c) - 1
             ELSE IF Pos(Lower, c) \in 1..6 THEN Pos(Lower, c) + 9 ELSE 99
DecVal(c) == IF Pos(Digits, c) > 0 THEN Pos(Digits, c) - 1 ELSE 99
RECURSIVE HexOf(_)
HexOf(n) == IF n < 16 THEN <<HexDigit[n + 1]>> ELSE HexOf(n \div 16) \o <<HexDigit[(n % 16) + 1]>>     \* "%X"
RECURSIVE Concat(_)
Concat(ss) == IF ss = <<>> THEN <<>> ELSE Head(ss) \o Concat(Tail(ss))
Last(s) == s[Len(s)]
Front(s) == SubSeq(s, 1, Len(s) - 1)

(* ------------------------------------------------------------ x, h *)
Amp == <<"&", "a", "m", "p", ";">>
XmlEscapes == ("&" :> Amp) @@ (">" :> <<"&", "g", "t", ";">>) @@ ("<" :> <<"&", "l", "t", ";">>)
              @@ ("\"" :> <<"&", "#", "3", "4", ";">>) @@ ("'" :> <<"&", "#", "3", "9", ";">>)
\* re.sub(r'([&<"\'>])', lambda m: xml_escapes[m.group()], string)
\* (the per-character results are constant functions: TLC evaluates them once)
XmlOf == [c \in Names |-> IF c \in {"&", "<", "\"", "'", ">"} THEN XmlEscapes[c] ELSE <<c>>]
XEsc(s) == Concat([i \in DOMAIN s |-> XmlOf[s[i]]])
\* markupsafe.escape: .replace("&", "&amp;").replace(">", "&gt;").replace("<", "&lt;").replace("'", "&#39;").replace('"', "&#34;")
\* ("&" first, so that the ampersands of the later replacements are not escaped again)
Replace(s, c, r) == Concat([i \in DOMAIN s |-> IF s[i] = c THEN r ELSE <<s[i]>>])
HEsc(s) == Replace(Replace(Replace(Replace(Replace(s, "&", Amp), ">", <<"&", "g", "t", ";">>), "<", <<"&", "l", "t", ";">>),
                           "'", <<"&", "#", "3", "9", ";">>), "\"", <<"&", "#", "3", "4", ";">>)

(* ------------------------------------------------------------ u *)
\* quote_plus(string.encode("utf8")): always-safe octets are letters, digits and _ . - ~
SafeOctet(b) == (b >= 48 /\ b <= 57) \/ (b >= 65 /\ b <= 90) \/ (b >= 97 /\ b <= 122) \/ b \in {95, 46, 45, 126}
OctetChar(b) == IF b >= 48 /\ b <= 57 THEN Digits[b - 47]
                ELSE IF b >= 65 /\ b <= 90 THEN Upper[b - 64]
                ELSE IF b >= 97 /\ b <= 122 THEN Lower[b - 96]
                ELSE IF b = 95 THEN "_" ELSE IF b = 46 THEN "." ELSE IF b = 45 THEN "-" ELSE "~"
QuoteOctet(b) == IF SafeOctet(b) THEN <<OctetChar(b)>>
                 ELSE IF b = 32 THEN <<"+">>
                 ELSE <<"%", HexDigit[(b \div 16) + 1], HexDigit[(b % 16) + 1]>>
QuotedOctets(o) == Concat([i \in DOMAIN o |-> QuoteOctet(o[i])])
UOf == [c \in Names |-> QuotedOctets(Sym[c].utf8)]          \* quoting is octet-wise, hence character-wise
UEsc(s) == Concat([i \in DOMAIN s |-> UOf[s[i]]])
UrlSafeChars == SeqSet(Digits) \cup SeqSet(Upper) \cup SeqSet(Lower) \cup {"_", ".", "-", "~"}
\* reference decoder: unquote_plus to octets ...
CharOctet(c) == IF Pos(Digits, c) > 0 THEN 47 + Pos(Digits, c)
                ELSE IF Pos(Upper, c) > 0 THEN 64 + Pos(Upper, c)
                ELSE IF Pos(Lower, c) > 0 THEN 96 + Pos(Lower, c)
                ELSE IF c = "_" THEN 95 ELSE IF c = "." THEN 46 ELSE IF c = "-" THEN 45 ELSE IF c = "~" THEN 126 ELSE 999
RECURSIVE UnquoteOctets(_)
UnquoteOctets(o) ==
  IF o = <<>> THEN <<>>
  ELSE IF Head(o) = "%" THEN (IF Len(o) >= 3 /\ HexVal(o[2]) < 16 /\ HexVal(o[3]) < 16
                              THEN <<16 * HexVal(o[2]) + HexVal(o[3])>> \o UnquoteOctets(SubSeq(o, 4, Len(o)))
                              ELSE <<999>>)
  ELSE IF Head(o) = "+" THEN <<32>> \o UnquoteOctets(Tail(o))
  ELSE <<CharOctet(Head(o))>> \o UnquoteOctets(Tail(o))
\* ... and UTF-8 octets back to characters (UTF-8 is prefix free: at most one character matches)
\* (domains are named constants: `x \in DOMAIN f` would rebuild and sort the domain on every evaluation)
Utf8Dom == {Sym[n].utf8 : n \in Names}
ByUtf8 == [u \in Utf8Dom |-> CHOOSE n \in Names : Sym[n].utf8 = u]
RECURSIVE Utf8Decode(_)
Utf8Decode(b) ==
  IF b = <<>> THEN <<>>
  ELSE LET K == {k \in 1..4 : k <= Len(b) /\ SubSeq(b, 1, k) \in Utf8Dom}
       IN IF K = {} THEN <<"?undecodable">>
          ELSE LET k == CHOOSE k \in K : TRUE IN <<ByUtf8[SubSeq(b, 1, k)]>> \o Utf8Decode(SubSeq(b, k + 1, Len(b)))
UDecode(o) == Utf8Decode(UnquoteOctets(o))

(* ------------------------------------------------------------ entity *)
EntityOf(c) == <<"&">> \o Sym[c].ent \o <<";">>
\* str(text).translate(self.codepoint2entity)
EntOf == [c \in Names |-> IF HasEntity(c) THEN EntityOf(c) ELSE <<c>>]
EntEsc(s) == Concat([i \in DOMAIN s |-> EntOf[s[i]]])

(* ------------------------------------------------------------ reference decoder for &name; &#DDD; &#xHHH; *)
NoChar == "?none"
CpDom == {Sym[n].cp : n \in Names}
EntDom == {Sym[n].ent : n \in Names} \ {<<>>}
ByCp == [cp \in CpDom |-> CHOOSE n \in Names : Sym[n].cp = cp]
ByEnt == [e \in EntDom |-> CHOOSE n \in Names : Sym[n].ent = e]
CpChar(cp) == IF cp \in CpDom THEN ByCp[cp] ELSE NoChar
EntChar(e) == IF e \in EntDom THEN ByEnt[e] ELSE NoChar
RECURSIVE NumVal(_, _, _)
NumVal(ds, base, acc) == IF ds = <<>> THEN acc
                         ELSE LET v == IF base = 16 THEN HexVal(Head(ds)) ELSE DecVal(Head(ds))
                              IN NumVal(Tail(ds), base, acc * base + v)        \* callers check the digits first
\* the character a reference body (between "&" and ";") stands for
RefChar(body) ==
  IF Len(body) >= 3 /\ body[1] = "#" /\ body[2] = "x"
  THEN (IF \A i \in 3..Len(body) : HexVal(body[i]) < 16 THEN CpChar(NumVal(SubSeq(body, 3, Len(body)), 16, 0)) ELSE NoChar)
  ELSE IF Len(body) >= 2 /\ body[1] = "#"
  THEN (IF \A i \in 2..Len(body) : DecVal(body[i]) < 10 THEN CpChar(NumVal(SubSeq(body, 2, Len(body)), 10, 0)) ELSE NoChar)
  ELSE EntChar(body)
SemiAt(s) == IF \E i \in DOMAIN s : s[i] = ";" THEN CHOOSE i \in DOMAIN s : s[i] = ";" /\ \A j \in 1..(i - 1) : s[j] # ";" ELSE 0
\* decode every reference; a "&" that does not start a well-formed reference yields NoChar
RECURSIVE RefDec(_)
RefDec(o) ==
  IF o = <<>> THEN <<>>
  ELSE IF Head(o) # "&" THEN <<Head(o)>> \o RefDec(Tail(o))
  ELSE LET k == SemiAt(o)
       IN IF k = 0 THEN <<NoChar>> ELSE <<RefChar(SubSeq(o, 2, k - 1))>> \o RefDec(SubSeq(o, k + 1, Len(o)))
RefDecode(o) == LET v == RefDec(o) IN [ok |-> \A i \in DOMAIN v : v[i] # NoChar, val |-> v]

(* ------------------------------------------------------------ trim *)
IsWs(c) == IsInput(c) /\ Sym[c].ws
RECURSIVE LStripWs(_)
LStripWs(s) == IF s # <<>> /\ IsWs(Head(s)) THEN LStripWs(Tail(s)) ELSE s
RECURSIVE RStripWs(_)
RStripWs(s) == IF s # <<>> /\ IsWs(Last(s)) THEN RStripWs(Front(s)) ELSE s
Trim(s) == RStripWs(LStripWs(s))

(* ------------------------------------------------------------ decode.<enc> *)
\* x is [kind |-> "str", val |-> s] | [kind |-> "bytes", val |-> s] (s encoded with the filter's
\* encoding) | [kind |-> "obj", val |-> s] (an object whose str() is s)
RECURSIVE DecodeF(_)
DecodeF(x) == IF x.kind = "str" THEN x
              ELSE IF x.kind # "bytes" THEN DecodeF([kind |-> "str", val |-> x.val])      \* decode(str(x))
              ELSE [kind |-> "str", val |-> x.val]                                          \* str(x, encoding=key)

(* ------------------------------------------------------------ the error handler *)
Encodable(c, cs) == cs \in Sym[c].enc
\* XMLEntityEscaper.__escape for one matched character
EscapeRef(c) == IF HasEntity(c) THEN EntityOf(c) ELSE <<"&", "#", "x">> \o HexOf(Sym[c].cp) \o <<";">>
\* XMLEntityEscaper.escape: __escapable = ["&<>]|[^\x00-\x7f]
Escapable(c) == c \in {"\"", "&", "<", ">"} \/ ~IsAscii(c)
\* pieces of the encoded output: [src, out, rep]; a maximal run of unencodable characters is handed to
\* the handler in one call, its replacement is the escape of each character of the run
RECURSIVE RunLen(_, _)
RunLen(s, cs) == IF s # <<>> /\ ~Encodable(Head(s), cs) THEN 1 + RunLen(Tail(s), cs) ELSE 0
EscOf == [c \in Names |-> IF Escapable(c) THEN EscapeRef(c) ELSE <<c>>]
HandlerPieces(bad) == [i \in DOMAIN bad |-> [src |-> bad[i], rep |-> TRUE, out |-> EscOf[bad[i]]]]
\* does the replacement of c decode back to c?  (a fact about the character, evaluated once)
EscOfDecodes == [c \in Names |-> RefDecode(EscOf[c]) = [ok |-> TRUE, val |-> <<c>>]]
RECURSIVE EncPieces(_, _)
EncPieces(s, cs) ==
  IF s = <<>> THEN <<>>
  ELSE IF Encodable(Head(s), cs) THEN <<[src |-> Head(s), rep |-> FALSE, out |-> <<Head(s)>>]>> \o EncPieces(Tail(s), cs)
  ELSE LET k == RunLen(s, cs)
       IN HandlerPieces(SubSeq(s, 1, k)) \o EncPieces(SubSeq(s, k + 1, Len(s)), cs)
\* the encoded output, seen as text (decoded again with the same charset)
Encode(s, cs) == LET p == EncPieces(s, cs) IN Concat([i \in DOMAIN p |-> p[i].out])

(* ------------------------------------------------------------ state: the enumerated string and all outputs *)
VARIABLES str, out, der
vars == <<str, out, der>>
Outputs(s) == [h |-> HEsc(s), x |-> XEsc(s), u |-> UEsc(s), entity |-> EntEsc(s), trim |-> Trim(s),
               dec |-> [k \in {"str", "bytes", "obj"} |-> DecodeF([kind |-> k, val |-> s])],
               pieces |-> [cs \in Charsets |-> EncPieces(s, cs)]]
\* ... and, derived from them, the encoded text and what the reference decoders make of the outputs
Derived(o) == [enc |-> [cs \in Charsets |-> Concat([i \in DOMAIN o.pieces[cs] |-> o.pieces[cs][i].out])],
               dh |-> RefDecode(o.h), dx |-> RefDecode(o.x), dent |-> RefDecode(o.entity), du |-> UDecode(o.u)]
Init == str = <<>> /\ out = Outputs(<<>>) /\ der = Derived(out)
Grow(c) == /\ Len(str) < MaxLen /\ str' = Append(str, c) /\ out' = Outputs(str') /\ der' = Derived(out')
Next == \E c \in GenNames : Grow(c)
Spec == Init /\ [][Next]_vars

(* ------------------------------------------------------------ the property *)
Markup == {"<", ">", "\"", "'"}
\* h, x: none of < > " ' and no & other than the start of a reference
NoMarkup(o) == \A i \in DOMAIN o : o[i] \notin Markup
NeutralOut(o) == NoMarkup(o) /\ RefDecode(o).ok
Neutral == NoMarkup(out.h) /\ der.dh.ok /\ NoMarkup(out.x) /\ der.dx.ok
Invertible == der.dh.val = str /\ der.dx.val = str
UrlSafe == \A i \in DOMAIN out.u : \/ out.u[i] \in UrlSafeChars \cup {"+"}
                                   \/ /\ out.u[i] = "%" /\ i + 2 <= Len(out.u)
                                      /\ HexVal(out.u[i + 1]) < 16 /\ HexVal(out.u[i + 2]) < 16
UrlInvertible == der.du = str
\* entity: exactly the characters with a named entity are replaced (no such character is left raw except
\* the "&" opening a reference; every other character is kept), and unescaping inverts
EntityExact == /\ \A i \in DOMAIN out.entity : (IsInput(out.entity[i]) /\ HasEntity(out.entity[i])) => out.entity[i] = "&"
               /\ Len(out.entity) = Len(str) + Len(Concat([i \in DOMAIN str |-> IF HasEntity(str[i]) THEN Sym[str[i]].ent \o <<";">> ELSE <<>>]))
               /\ der.dent.ok /\ der.dent.val = str
\* trim: the result is the input minus a whitespace-only prefix and suffix, and has no whitespace at its ends
TrimOnlyEnds == /\ \E i \in 0..Len(str) : \E j \in i..Len(str) :
                      /\ out.trim = SubSeq(str, i + 1, j)
                      /\ \A k \in (1..i) \cup ((j + 1)..Len(str)) : IsWs(str[k])
                /\ (out.trim # <<>> => ~IsWs(Head(out.trim)) /\ ~IsWs(Last(out.trim)))
DecodeStr == \A k \in {"str", "bytes", "obj"} : out.dec[k] = [kind |-> "str", val |-> str]
\* the handler: encoding succeeds; what is emitted is encodable; every unencodable character is replaced
\* by a reference that decodes back to it, every other character is kept
HandlerTotal == \A cs \in Charsets :
                  LET p == out.pieces[cs] IN
                  /\ Len(p) = Len(str)
                  /\ \A i \in DOMAIN p :
                       /\ p[i].src = str[i]
                       /\ p[i].rep = ~Encodable(str[i], cs)
                       /\ (p[i].rep => (p[i].out = EscOf[str[i]] /\ EscOfDecodes[str[i]]))
                       /\ (~p[i].rep => p[i].out = <<str[i]>>)
                       /\ \A j \in DOMAIN p[i].out : (IsInput(p[i].out[j]) => Encodable(p[i].out[j], cs))
\* LENGTH / REPETITION.  h, x, u, entity and the encoding with the handler work character by character: the
\* output of a concatenation is the concatenation of the outputs, for every split of the string.  (Checked here
\* on the bounded strings; harness/c10.py uses it to derive the expected output of long strings -- a pattern
\* repeated n times -- from the output TLC exports for the pattern.)
Parts(k) == <<SubSeq(str, 1, k), SubSeq(str, k + 1, Len(str))>>
Homomorphic == \A k \in 0..Len(str) :
                 LET a == Parts(k)[1]
                     b == Parts(k)[2]
                 IN /\ out.h = HEsc(a) \o HEsc(b) /\ out.x = XEsc(a) \o XEsc(b)
                    /\ out.u = UEsc(a) \o UEsc(b) /\ out.entity = EntEsc(a) \o EntEsc(b)
                    /\ \A cs \in Charsets : der.enc[cs] = Encode(a, cs) \o Encode(b, cs)
                    /\ der.dent.val = RefDecode(EntEsc(a)).val \o RefDecode(EntEsc(b)).val
\* trim is not character-wise, but composes: if both parts contain a non-whitespace character, trimming the
\* concatenation strips the left end of the first and the right end of the second part only
HasNonWs(s) == \E i \in DOMAIN s : ~IsWs(s[i])
TrimComposes == \A k \in 0..Len(str) :
                  LET a == Parts(k)[1]
                      b == Parts(k)[2]
                  IN /\ (HasNonWs(a) /\ HasNonWs(b)) => out.trim = LStripWs(a) \o RStripWs(b)
                     /\ (~HasNonWs(a) /\ ~HasNonWs(b)) => out.trim = <<>>
=============================================================================
