----------------------------- MODULE WarnSession -----------------------------
(***************************************************************************)
(* Sessions of several template compiles in ONE process (property C12,     *)
(* warnings): mako/template.py _show_warnings_as installs a display hook   *)
(* (warnings.showwarning) for the duration of a compile - first the hook   *)
(* of _drop_expression_warnings around lexing / code generation, then the  *)
(* hook of _translate_module_warnings around compile() and exec of the     *)
(* generated module - and must put back what was installed before,         *)
(* whether the compile succeeds or raises.  Warn.tla describes one warning *)
(* within one compile; this module describes the state that SURVIVES a     *)
(* compile: the installed hook.                                            *)
(*                                                                         *)
(* A compile is one of                                                     *)
(*   "ok"                   no warning, succeeds                           *)
(*   "fails-at-lex"         template syntax error (raised inside the first *)
(*                          hook's block)                                  *)
(*   "fails-in-module-code" an exception from <%! %> code (raised inside   *)
(*                          the second hook's block)                       *)
(*   "warns-once"           a warning literal under the "always" filter:   *)
(*                          shown exactly once, at the template's line     *)
(*   "warns-under-error"    the same literal under the "error" filter:     *)
(*                          a SyntaxException, nothing shown               *)
(* `hook` is what warnings.showwarning is between compiles: "orig" (what   *)
(* the process had before the session) or "stale" (a closure of a finished *)
(* compile, which would translate later warnings through that compile's    *)
(* line map or swallow them).  RestoreInFinally = TRUE is the intended     *)
(* design (try: yield / finally: restore); with FALSE a raising compile    *)
(* leaves its hook behind and TLC shows HookRestored violated.             *)
(***************************************************************************)
EXTENDS Naturals, Sequences, TLC, Json
CONSTANTS Kinds, MaxLen, RestoreInFinally
VARIABLES sess,    \* the compiles done so far: sequence of [kind, res, shown, restored]
          hook,    \* "orig" | "stale"
          phase
vars == <<sess, hook, phase>>

Raises(k) == k \in {"fails-at-lex", "fails-in-module-code", "warns-under-error"}
Result(k) == CASE k \in {"fails-at-lex", "warns-under-error"} -> "mako-syntax-exception"
               [] k = "fails-in-module-code" -> "module-code-exception"
               [] OTHER -> "ok"
\* what this compile displays: its own warning exactly once at its own line - provided the display chain it hands the
\* (translated) warning to is the process's original one; through a stale hook it is translated again or dropped
Shown(k, h) == IF k = "warns-once" THEN (IF h = "orig" THEN "once-at-home" ELSE "corrupted") ELSE "nothing"

Init == sess = <<>> /\ hook = "orig" /\ phase = "run"
Compile(k) ==
  /\ phase = "run" /\ Len(sess) < MaxLen /\ k \in Kinds
  /\ LET after == IF Raises(k) /\ ~RestoreInFinally THEN "stale" ELSE hook IN    \* restore = put back what was there before
     /\ hook' = after
     /\ sess' = Append(sess, [kind |-> k, res |-> Result(k), shown |-> Shown(k, hook), restored |-> (after = hook)])
  /\ UNCHANGED phase
Emit == /\ phase = "run" /\ Len(sess) >= 2 /\ PrintT(ToJson([session |-> sess]))
        /\ phase' = "printed" /\ UNCHANGED <<sess, hook>>
Next == (\E k \in Kinds : Compile(k)) \/ Emit
Spec == Init /\ [][Next]_vars

\* after every compile, successful or not, warnings.showwarning is what it was before the session
HookRestored == hook = "orig" /\ \A n \in 1..Len(sess) : sess[n].restored
\* every compile that warns shows its warning exactly once, at its own template line; no other compile shows anything
ShownExactlyOncePerCompile ==
  \A n \in 1..Len(sess) : sess[n].shown = (IF sess[n].kind = "warns-once" THEN "once-at-home" ELSE "nothing")
=============================================================================
