-------------------------------- MODULE Lines --------------------------------
(***************************************************************************)
(* Layout calculus for template positions (properties C11, C12, C20).      *)
(*                                                                         *)
(* A template is a sequence of constructs taken from a catalog `Cat`.      *)
(* A catalog entry is geometry only: the widths of its physical lines      *)
(* (`w`, so Len(w)-1 line terminators), whether it must begin at the start *)
(* of a line (`ls`: control lines, ## comments), and - for an entry that   *)
(* carries a planted fault / raise - a record `f`:                         *)
(*   cls   "none" | "py" (syntax error in embedded Python) | "st"          *)
(*         (structural fault) | "rt" (planted raise, C12)                  *)
(*   site  how the Python text reaches the Python parser (see MechLine)    *)
(*   noff, nc   the offending (sub-)construct begins `noff` physical lines  *)
(*         below the entry's first line, `nc` characters into that line    *)
(*   ind   indentation of a control line (the property does not say        *)
(*         whether the indentation belongs to the construct: the column    *)
(*         may be given with or without it)                                *)
(*   coff  lines between the construct's first line and the line on which  *)
(*         the Python string begins (a tag attribute on a later line)      *)
(*   lead  line terminators at the very beginning of the Python string     *)
(*   pfx   lines the code puts in front of the string to complete it       *)
(*         (elif/else/except are parsed behind "if False:pass")            *)
(*   pyl   0-based line of the offending Python line inside the string     *)
(*         after the leading terminators                                   *)
(*   foff  physical line of the entry holding the offending Python line /  *)
(*         the raising statement (measured independently: the catalog      *)
(*         must satisfy foff = noff + coff + lead + pyl)                   *)
(*   exact (C12) TRUE for <% %> / <%! %> lines: the frame maps to the      *)
(*         exact line, otherwise to the line where the construct begins    *)
(*   fr    (C12) the template-owned traceback frames the planted raise     *)
(*         produces inside this entry, outermost first: off = physical     *)
(*         line of the entry the frame must map to (the line where the     *)
(*         calling construct begins, or the exact line inside <% %>)       *)
(*                                                                         *)
(* Two computations are kept apart and compared by TLC:                    *)
(*  - Declared(t,i): what the PROPERTY says - the physical line holding    *)
(*    the offending Python line, or the line/column where the offending    *)
(*    construct begins - by closed-form prefix sums over the geometry;     *)
(*  - the MECHANISM, in the shape of the code: the lexer cursor            *)
(*    (mako/lexer.py match_reg: matched_lineno/matched_charpos, lineno +=  *)
(*    count of "\n" in the consumed text) stepped construct by construct,  *)
(*    then the arithmetic of mako/pyparser.py _adjust_lineno and           *)
(*    mako/ast.py PythonCode (count of stripped leading newlines) /        *)
(*    PythonFragment (lineno_offset = -1 behind a completion line).        *)
(* Invariant ReportAtFault: both agree for every layout x fault position.  *)
(* The terminal action prints the case with the declared expectation;      *)
(* the harness concretises the case into a real template and compares.     *)
(***************************************************************************)
EXTENDS Naturals, Integers, Sequences, FiniteSets, TLC, Json, LinesCat, Layout

CONSTANTS Good,      \* indices of well-formed entries used before the fault
          Faulty,    \* indices of entries carrying the planted fault / raise
          Tails,     \* indices of entries that may follow the fault (at most one follows)
          MaxPre,    \* number of entries before the fault: 0..MaxPre
          NLKinds,   \* line terminators of the case: subset of {"lf", "crlf"}
          Routes,    \* how the faulty template gets compiled: "string", "file", "lookup" (direct), or lazily
                     \* from a rendering, well-formed OUTER template: "include", "inherit", "namespace";
                     \* each with or without a module directory ("+mod" appended)
          Opts,      \* Template / lookup options of the case that transform the text before it is lexed or change the
                     \* layout of the generated module: "none", "pre-identity", "pre-delete" (a preprocessor deleting the
                     \* 2 lines in front), "pre-insert" (one putting 2 lines in front), "pre-list" (both, in that order),
                     \* "bytes-magic" (bytes input whose first line is the magic encoding comment: skipped as content but
                     \* counted as a line), "bom", "strict_undefined", "enable_loop-false", "imports", "future_imports",
                     \* "default_filters"
          SourceIsLexedText,  \* TRUE (intended): the source carried by nodes and exceptions is the text the lexer lexes
                              \* (after decoding and preprocessing); FALSE: the text before the preprocessors ran
          RichOverrides  \* TRUE (intended): RichTraceback takes source/lineno from a Compile/SyntaxException
                         \* whatever the traceback holds; FALSE: only when no frame belongs to a template

\* the catalog (sequence of entry records): LinesCat.tla, regenerated by the harness for every run
\* (a definition, not a cfg substitution: TLC evaluates it once)
Cat == CatDef

VARIABLES tpl,      \* the template: sequence of catalog indices
          nlk,      \* line terminator of the case
          fpos,     \* position of the faulty entry in tpl (0 while building)
          phase,    \* "build" -> "tail" -> "lex" -> "done" -> "end"
          k,        \* lexer cursor: next entry to consume
          lineno,   \* Lexer.lineno
          cb,       \* characters consumed on the current line (match_position - last newline - 1)
          report,   \* what the mechanism reports
          route,    \* compile route of the case
          opt       \* option configuration of the case
vars == <<tpl, nlk, fpos, phase, k, lineno, cb, report, route, opt>>

NoReport == [line |-> 0, col |-> 0]
\* lines standing in front of the catalog template in the text the lexer lexes / in the text before the preprocessors
LexedHead(o) == CASE o \in {"pre-insert", "pre-list"} -> 2 [] o = "bytes-magic" -> 1 [] OTHER -> 0
RawHead(o)   == CASE o \in {"pre-delete", "pre-list"} -> 2 [] o = "bytes-magic" -> 1 [] OTHER -> 0
\* the source text carried by the exception begins with this many lines before the catalog template
CarriedHead(o) == IF SourceIsLexedText THEN LexedHead(o) ELSE RawHead(o)

(* ------------------------------ geometry ------------------------------ *)
NLs(e)   == L_NLs(Cat, e)                  \* line terminators inside entry e
LastW(e) == L_LastW(Cat, e)                \* width of its last physical line
SumNL(t, n)    == L_SumNL(Cat, t, n)
ColAfter(t, n) == L_ColAfter(Cat, t, n)    \* characters on the current line after n entries
LineOf(t, i)   == L_LineOf(Cat, t, i)      \* 1-based line on which entry i begins
ColOf(t, i)    == L_ColOf(Cat, t, i)       \* 1-based column at which it begins
AtLineStart(t) == L_AtLineStart(Cat, t)
MayFollow(t, e) == Cat[e].ls => AtLineStart(t)

(* --------------------------- the property ----------------------------- *)
\* columns accepted for a construct whose first character is at column c
Cols(c, f) == {c, c + f.ind}
Declared(t, i) ==
  LET f  == Cat[t[i]].f
      bl == LineOf(t, i) + LexedHead(opt)      \* positions are positions in the text the lexer actually lexes
      c0 == (IF f.noff = 0 THEN ColOf(t, i) ELSE 1) + f.nc
  IN [line |-> bl + (IF f.cls = "py" \/ (f.cls = "rt" /\ f.exact) THEN f.foff ELSE f.noff),
      cols |-> Cols(c0, f),
      frames |-> [n \in 1..Len(f.fr) |-> bl + f.fr[n].off]]

(* --------------------------- the mechanism ---------------------------- *)
\* line the Python parser reports inside the string it is given (1-based): completion lines,
\* then - unless the caller stripped them - the leading newlines, then the offending line
PyLine(f, stripped) == f.pfx + (IF stripped THEN 0 ELSE f.lead) + f.pyl + 1
\* pyparser._adjust_lineno: node.lineno + lineno_offset + exc.lineno - 1
Adjust(nodeline, off, excline) == nodeline + off + excline - 1
MechLine(nodeline, f) ==
  CASE f.site = "code"   -> \* ast.PythonCode: lstrip, counted; PythonFragment passes -pfx
                            Adjust(nodeline, f.lead - f.pfx, PyLine(f, TRUE))
    [] f.site = "parse"  -> \* pyparser.parse called directly (FunctionDecl, FunctionArgs, ArgumentList)
                            Adjust(nodeline, 0, PyLine(f, FALSE))
    [] f.site = "filter" -> \* the lexer strips the filter text, nobody counts what was stripped
                            Adjust(nodeline, 0, PyLine(f, TRUE))
    [] OTHER             -> nodeline
\* Node positions: the cursor's matched position plus the offset of the sub-construct inside the
\* entry (a later node of the same entry is reached by the same accumulation of "\n" counts).
Mech(ml, mc, f) ==
  LET nodeline == ml + f.noff
      nodecol  == (IF f.noff = 0 THEN mc ELSE 1) + f.nc
  IN [line |-> IF f.cls = "py" THEN MechLine(nodeline, f)
               ELSE IF f.cls = "rt" /\ f.exact THEN nodeline + (f.foff - f.noff)   \* write_indented_block: one entry per line
               ELSE nodeline,
      col |-> nodecol]

(* ------------------------------ actions ------------------------------- *)
Init == /\ opt \in Opts /\ tpl = <<>> /\ nlk \in NLKinds /\ fpos = 0 /\ phase = "build"
        /\ k = 1 /\ lineno = 1 + LexedHead(opt) /\ cb = 0 /\ report = NoReport /\ route \in Routes

AddPre(e) == /\ phase = "build" /\ Len(tpl) < MaxPre /\ e \in Good /\ MayFollow(tpl, e)
             /\ tpl' = Append(tpl, e)
             /\ UNCHANGED <<nlk, fpos, phase, k, lineno, cb, report, route, opt>>
\* fault planting: class x position (the entry carries class and inner position)
Plant(e) == /\ phase = "build" /\ e \in Faulty /\ MayFollow(tpl, e)
            /\ tpl' = Append(tpl, e) /\ fpos' = Len(tpl) + 1 /\ phase' = "tail"
            /\ UNCHANGED <<nlk, k, lineno, cb, report, route, opt>>
AddTail(e) == /\ phase = "tail" /\ e \in Tails /\ MayFollow(tpl, e)
              /\ tpl' = Append(tpl, e) /\ phase' = "lex"
              /\ UNCHANGED <<nlk, fpos, k, lineno, cb, report, route, opt>>
NoTail == /\ phase = "tail" /\ phase' = "lex"
          /\ UNCHANGED <<tpl, nlk, fpos, k, lineno, cb, report, route, opt>>
\* Lexer.match_reg over one construct
LexStep == /\ phase = "lex" /\ k <= Len(tpl)
           /\ LET e  == tpl[k]
                  ml == lineno          \* matched_lineno
                  mc == cb + 1          \* matched_charpos
              IN /\ lineno' = lineno + NLs(e)
                 /\ cb' = (IF NLs(e) > 0 THEN LastW(e) ELSE cb + LastW(e))
                 /\ report' = (IF k = fpos THEN Mech(ml, mc, Cat[e].f) ELSE report)
           /\ k' = k + 1
           /\ UNCHANGED <<tpl, nlk, fpos, phase, route, opt>>
LexEnd == /\ phase = "lex" /\ k > Len(tpl) /\ phase' = "done"
          /\ UNCHANGED <<tpl, nlk, fpos, k, lineno, cb, report, route, opt>>
(* RichTraceback (mako/exceptions.py): which template and line it displays for the compile error.  *)
(* On a lazy route the traceback holds a frame of the OUTER template (at its include / inherit /    *)
(* namespace tag); RichTraceback._init would pick that frame's template and line.                   *)
Lazy(r) == r \in {"include", "inherit", "namespace", "include+mod", "inherit+mod", "namespace+mod"}
RichShows == IF RichOverrides \/ ~Lazy(route) THEN [who |-> "faulty", line |-> report.line]
             ELSE [who |-> "outer", line |-> 0]
SetToSeq(S) == LET RECURSIVE h(_) h(s) == IF s = {} THEN <<>> ELSE LET x == CHOOSE y \in s : \A z \in s : y <= z IN <<x>> \o h(s \ {x}) IN h(S)
Case == LET d == Declared(tpl, fpos) IN
        [seq |-> tpl, nl |-> nlk, route |-> route, opt |-> opt, fpos |-> fpos, line |-> d.line, cols |-> SetToSeq(d.cols),
         bline |-> LineOf(tpl, fpos) + LexedHead(opt), bcol |-> ColOf(tpl, fpos), frames |-> d.frames,
         fline |-> LineOf(tpl, fpos) + LexedHead(opt) + Cat[tpl[fpos]].f.foff,     \* physical line of the planted token
         \* where the planted line stands in the whole text: total number of lines, and whether the text ends with a
         \* line terminator (first / last line, single-line template, last line without terminator are layout dimensions)
         nlines |-> LexedHead(opt) + 1 + SumNL(tpl, Len(tpl)), endnl |-> AtLineStart(tpl),
         mline |-> report.line, mcol |-> report.col]
Emit == /\ phase = "done" /\ PrintT(ToJson(Case)) /\ phase' = "end"
        /\ UNCHANGED <<tpl, nlk, fpos, k, lineno, cb, report, route, opt>>
Next == \/ \E e \in Good : AddPre(e)
        \/ \E e \in Faulty : Plant(e)
        \/ \E e \in Tails : AddTail(e)
        \/ NoTail \/ LexStep \/ LexEnd \/ Emit
Spec == Init /\ [][Next]_vars

(* ----------------------------- invariants ----------------------------- *)
CatalogOK == \A e \in Faulty : LET f == Cat[e].f IN
                 f.cls \in {"py", "rt"} => f.foff = f.noff + f.coff + f.lead + f.pyl
ReportAtFault == phase \in {"done", "end"} =>
                    LET d == Declared(tpl, fpos) IN report.line = d.line /\ report.col \in d.cols
\* the same on every compile route: RichTraceback / the error templates display the faulty template at
\* the declared line (the exception's own fields are route-independent by construction of Declared)
RichShowsFault == phase \in {"done", "end"} =>
                    RichShows.who = "faulty" /\ RichShows.line = Declared(tpl, fpos).line
\* consistency of what the exception carries: its source, split on line terminators and indexed by the reported
\* line, is the line holding the fault (the marker stands CarriedHead + LineOf + offset lines into the carried text)
SourceConsistent == phase \in {"done", "end"} =>
                    LET f == Cat[tpl[fpos]].f
                        marker == CarriedHead(opt) + LineOf(tpl, fpos) + (IF f.cls = "py" \/ (f.cls = "rt" /\ f.exact) THEN f.foff ELSE f.noff)
                    IN Declared(tpl, fpos).line = marker
\* the cursor agrees with the closed form at every step
CursorIsPrefixSum == phase = "lex" =>
                    /\ lineno = 1 + LexedHead(opt) + SumNL(tpl, k - 1)
                    /\ cb = ColAfter(tpl, k - 1)
=============================================================================
