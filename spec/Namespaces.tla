----------------------------- MODULE Namespaces -----------------------------
(***************************************************************************)
(* C07 -- how <%namespace>, <%include>, <%inherit> and the namespace       *)
(* methods get_namespace / get_template / include_file reach other         *)
(* templates: URI resolution (with UriPath.tla), precedence of inline defs *)
(* / file or module members / imports / context, inheritable namespaces,   *)
(* and the context + arguments an included template runs with.             *)
(*                                                                         *)
(* Mirrors  mako/runtime.py  _lookup_template, _include_file,              *)
(*            _kwargs_for_include, Context._clean_inheritance_tokens,      *)
(*            _populate_self_namespace, Namespace/TemplateNamespace/       *)
(*            ModuleNamespace.__getattr__, _populate, _get_star,           *)
(*          mako/codegen.py  write_namespaces (make_namespace, inheritable *)
(*            => context['self'].<name> = ns), write_variable_declares     *)
(*            (_import_ns.get(name, context.get(name))), visitIncludeTag,  *)
(*          mako/lookup.py   adjust_uri, get_template.                     *)
(*                                                                         *)
(* Four families of scenarios (cfg.fam), each a short deterministic run     *)
(* that produces the token sequence `out` the real render must produce:    *)
(*  "uri"     one TemplateLookup over a directory layout; a session of     *)
(*            requests, each: render writer template W (in directory w),   *)
(*            whose tag of kind k1 carries URI spelling s1 (hop 1); the    *)
(*            target may itself include a second spelling s2 (hop 2).      *)
(*  "nsprec"  one template with <%namespace name="ns" ...>: who answers    *)
(*            ns.X() and the unqualified X() (I inline def, F file/module, *)
(*            C context variable).                                         *)
(*  "inh"     a chain of templates, level d declares an inheritable        *)
(*            namespace; every level >= d calls self.ns.p().               *)
(*  "multins" one template (in directory a) declares 1..3 namespaces of      *)
(*            different kinds (file A in a/b, file B in x, inline defs,     *)
(*            module) in some order; a def `probe` of each observes its own *)
(*            identity: self.sib(), local.uri, self.uri, self.attr.m, a     *)
(*            relative URI resolved from inside the def, and a variable     *)
(*            given to render().  Each namespace gets its OWN copy of the   *)
(*            context (write_namespaces: context._clean_inheritance_tokens()*)
(*            per namespace; TemplateNamespace.__init__ -> _populate_self_  *)
(*            namespace writes self/local into that copy).                  *)
(*  "imports" one template with 1..3 <%namespace ... import=...> tags, each   *)
(*            NAMED or ANONYMOUS (no name=), kind file / inline / module,   *)
(*            import="d" or "*", written each on its own line / all on one  *)
(*            line / on one line separated by text; every tag is a          *)
(*            namespace of its own whose imports are populated              *)
(*            (parsetree.NamespaceTag name, codegen.write_toplevel          *)
(*            namespaces[...], write_variable_declares _populate).          *)
(*  "incpos"  where the <%include> stands in the includer and where the      *)
(*            values of T's <%page args="a=0, b=0"/> can come from: args=,  *)
(*            a render() kwarg, a body-level <% %> assignment made before,  *)
(*            the includer's own <%page args> default; "the context second" *)
(*            is the context visible AT THE INCLUDE POINT (a top-level def  *)
(*            called by name runs on context._locals(__M_locals)).          *)
(*  "incval"  the VALUES: each <%page> argument of the included template is  *)
(*            given explicitly or not (<%include args=>, include_file(kw...),*) 
(*            and for comparison a def call through a namespace) and is     *)
(*            in the context or not, with values truthy / False / 0 / '' /  *)
(*            [] / None on either side: explicit if GIVEN, whatever its     *)
(*            value; else the context if PRESENT; else the default.         *)
(*  "include" an includer (alone, derived of a base, or base of a derived) *)
(*            includes T (alone or inheriting TB) with args/context        *)
(*            patterns for T's <%page args="a=0, b=0"/>.                   *)
(***************************************************************************)
EXTENDS UriPath
CONSTANTS Tier            \* "quick" | "thorough": size of the enumerated scenario sets
VARIABLES cfg, pc, hop, cur, memo, nsmemo, coll, imp, sattr, nsctx, out, phase
vars == <<cfg, pc, hop, cur, memo, nsmemo, coll, imp, sattr, nsctx, out, phase>>

(* ------------------------------------------------------------------ the directory layouts *)
Dirs == << <<>>, <<"a">>, <<"a", "b">>, <<"a", "b", "c">>, <<"x">> >>
DirIdx(path) == IF \E d \in 1..Len(Dirs) : Dirs[d] = path THEN CHOOSE d \in 1..Len(Dirs) : Dirs[d] = path ELSE 0
(* which roots hold the target file "t" in directory d, per layout; writers and hop files ("u..") are in root 1 everywhere *)
TRoots(layout, d) ==
  CASE layout = 1 -> {1}
    [] layout = 2 -> IF d \in {1, 3} THEN {1} ELSE {}
    [] layout = 3 -> CASE d = 1 -> {2} [] d = 2 -> {1, 2} [] d = 3 -> {2} [] d = 4 -> {1} [] d = 5 -> {1, 2}
NRootsOf(layout) == IF layout = 3 THEN 2 ELSE 1
IsHopName(f) == f # "t"
Has(layout, r, n) ==          \* root r holds a file at normalised path n
  LET d == DirIdx(Front(n))  f == n[Len(n)] IN
  d # 0 /\ (IF f = "t" THEN r \in TRoots(layout, d) ELSE (r = 1 /\ f \in {"u", "h", "bb"}))
(* URI spellings: `pre` is what is written before the file name *)
Sp(a, pre) == [abs |-> a, pre |-> pre, empty |-> FALSE]
Spellings == <<
  Sp(FALSE, <<>>), Sp(FALSE, <<".">>), Sp(FALSE, <<"..">>), Sp(FALSE, <<"..", "..">>), Sp(FALSE, <<"b">>),
  Sp(FALSE, <<"b", "..">>), Sp(FALSE, <<"b", "">>), Sp(FALSE, <<"..", "x">>), Sp(FALSE, <<"zz">>), Sp(FALSE, <<"b", "c">>),
  Sp(TRUE, <<>>), Sp(TRUE, <<"a">>), Sp(TRUE, <<"a", "b">>), Sp(TRUE, <<"a", ".">>), Sp(TRUE, <<"a", "..">>),
  Sp(TRUE, <<"", "a">>), Sp(TRUE, <<"..">>), Sp(TRUE, <<"a", "b", "c">>), Sp(TRUE, <<"zz">>), Sp(TRUE, <<"a", "b", "..", "..", "x">>),
  [abs |-> FALSE, pre |-> <<>>, empty |-> TRUE] >>
NSp == Len(Spellings)
Plain(s) == ~Spellings[s].empty /\ \A k \in 1..Len(Spellings[s].pre) : Spellings[s].pre[k] \notin {"", ".", ".."}
Kinds == {"include", "nsfile", "inherit", "getns", "gettmpl", "incfile"}
Uri(s, fname) == [abs |-> Spellings[s].abs, segs |-> Spellings[s].pre \o <<fname>>]
(* A request: writer W in directory w carries spelling s1 in a tag / call of kind k1 (hop 1).  With s2 # 0 there is  *)
(* a second hop of kind k2:                                                                                          *)
(*   "include"     hop 1 reaches a file u whose <%include> carries s2;                                               *)
(*   "out.<api>"   hop 1 (k1 = nsfile / getns) yields a namespace h for helper H; the writer then calls              *)
(*                 h.get_template(s2) / h.include_file(s2) / h.get_namespace(s2): resolved THROUGH namespace h;      *)
(*   "in.<api>"    the writer calls h.show(); H's def show calls self.get_template / local.include_file /            *)
(*                 local.get_namespace with s2 (inside a def reached through h, self/local ARE h).                   *)
(* In every case s2, if relative, resolves against the URI of H (the template it is written in, resp. the            *)
(* template of the namespace it is resolved through) -- i.e. the URI hop 1 looked up.                                *)
(* base / entry: the writer W may inherit a base template living in directory `base` (0: W does not inherit), and the     *)
(* request may be W.render() ("render") or W.get_def("d").render() ("def") with the tag / call of hop 1 written inside    *)
(* def d of W.  Either way the URI is written in W: `local` inside d is W's own namespace -- _render_context links W's     *)
(* chain and then runs the def in W's own context, not in the base-most ancestor's.                                        *)
Req7(w, s1, k1, s2, k2, b, e) == [w |-> w, s1 |-> s1, k1 |-> k1, s2 |-> s2, k2 |-> k2, base |-> b, entry |-> e]
Req5(w, s1, k1, s2, k2) == Req7(w, s1, k1, s2, k2, 0, "render")
Req(w, s1, k1, s2) == Req5(w, s1, k1, s2, IF s2 = 0 THEN "none" ELSE "include")
ApiKinds == {"out.gettmpl", "out.incfile", "out.getns", "in.gettmpl", "in.incfile", "in.getns"}
HopFile(r) == IF r.s2 = 0 THEN "t" ELSE IF r.k2 = "include" THEN "u" ELSE "h"
ApiSp == {1, 2, 3, 5, 8, 11, 12, 13}          \* quick tier: spellings used for the namespace-API hops
UriConfigs ==
  LET W == 1..Len(Dirs)  S == 1..NSp  L == 1..3 IN
  (* single requests: every kind of tag *)
  {[fam |-> "uri", reach |-> "none", layout |-> l, reqs |-> <<Req(w, s, k, 0)>>] : l \in (IF Tier = "quick" THEN {1, 3} ELSE L), w \in W, s \in 1..NSp, k \in Kinds}
  \cup {[fam |-> "uri", reach |-> "none", layout |-> l, reqs |-> <<Req(w, s, "include", 0)>>] : l \in {2, 3}, w \in W, s \in 1..NSp}
  (* the same spelling from two different directories on one lookup (memo) *)
  \cup UNION {{[fam |-> "uri", reach |-> "none", layout |-> l, reqs |-> <<Req(w, s, k, 0), Req(w2, s, k, 0)>>] :
                  l \in {1, 3}, w2 \in W \ {w}, s \in {z \in S : ~Spellings[z].empty},
                  k \in (IF Tier = "quick" THEN {"include", "nsfile"} ELSE Kinds)} : w \in W}
  (* two hops: W -> u (spelling s1) -> t (spelling s2) *)
  \cup {[fam |-> "uri", reach |-> "none", layout |-> l, reqs |-> <<Req(w, s, "include", s2)>>] :
          l \in (IF Tier = "quick" THEN {1} ELSE L), w \in W, s \in {z \in S : ~Spellings[z].empty}, s2 \in {z \in S : ~Spellings[z].empty}}
  (* ONE render reaching two writers in different directories, both carrying the same spelling in the same kind of tag / call: *)
  (* entry template E (at the root) includes both / takes both as namespaces and calls their body() / inherits the first and  *)
  (* includes the second.  Everything memoised per render (context.namespaces) or per lookup is shared between the two.       *)
  \cup {c \in UNION {{[fam |-> "uri", reach |-> rc, layout |-> l, reqs |-> <<Req(w, s, k, 0), Req(w2, s, k, 0)>>] :
                  l \in {1, 2}, w2 \in W \ {w}, rc \in {"include", "nsbody", "inherit"},
                  s \in (IF Tier = "quick" THEN ApiSp ELSE {z \in S : ~Spellings[z].empty}), k \in Kinds} : w \in W} :
            /\ c.reqs[1].k1 # "inherit"       \* (x.body() / next.body() of a writer that itself inherits would not show its target)
            /\ (Tier = "quick" /\ c.layout = 2) => c.reqs[1].k1 \in {"getns", "nsfile", "include"}}
  (* ENTRY POINTS: the lookup is written inside def d of writer W, which inherits a base in another directory (or not);    *)
  (* requested as a whole render of W or as W.get_def("d")                                                                 *)
  \cup {[fam |-> "uri", reach |-> "none", layout |-> l, reqs |-> <<Req7(w, s, k, 0, "none", b, e)>>] :
          l \in (IF Tier = "quick" THEN {1} ELSE {1, 2}), w \in W, b \in {0, 1, 5}, e \in {"render", "def"},
          s \in (IF Tier = "quick" THEN ApiSp ELSE {z \in S : ~Spellings[z].empty}),
          k \in {"include", "getns", "gettmpl", "incfile"}}
  (* two hops through the Namespace API: W -> namespace of H (spelling s1) -> t (spelling s2 resolved through H) *)
  \cup {[fam |-> "uri", reach |-> "none", layout |-> l, reqs |-> <<Req5(w, s, k, s2, k2)>>] :
          l \in {1, 2}, w \in W, k \in {"nsfile", "getns"}, k2 \in ApiKinds,
          s \in (IF Tier = "quick" THEN ApiSp ELSE {z \in S : ~Spellings[z].empty}),
          s2 \in (IF Tier = "quick" THEN {1, 3, 5, 11, 12} ELSE ApiSp \cup {4, 6, 15, 17})}

(* ------------------------------------------------------------------ the other families *)
Names == {"p", "q"}
Imported(c) == CASE c.imp = "none" -> {} [] c.imp = "p" -> {"p"} [] c.imp = "pq" -> {"p", "q"} [] c.imp = "star" -> c.I \cup c.F
NsConfigs ==
  {c \in [fam : {"nsprec"}, kind : {"file", "module", "inline"}, I : SUBSET Names, F : SUBSET Names, C : SUBSET Names,
          imp : {"none", "p", "pq", "star"}] :
     /\ (c.kind = "inline" => c.F = {}) /\ c.I \cup c.F # {}
     /\ (c.imp \in {"p", "pq"} => Imported(c) \subseteq c.I \cup c.F)}
(* viadef: the derived levels call self.ns.p() from their body / from inside a top-level def of theirs *)
InhConfigs == {c \in [fam : {"inh"}, N : 2..(IF Tier = "quick" THEN 3 ELSE 4), d : 1..4, kind : {"file", "module", "inline"}, viadef : BOOLEAN] : c.d <= c.N}
Pat == {"args", "ctx", "both", "none"}
IncConfigs ==
  {c \in [fam : {"include"}, pos : {"solo", "derived", "base"}, tgt : {"solo", "inherits", "hasns"}, pa : Pat, pb : Pat, via : {"tag", "call"}] :
     c.tgt # "solo" => (c.pa = "none" /\ c.pb = "none")}
NsKinds == {"fa", "fb", "inl", "mod"}
Perms(n) == {q \in [1..n -> NsKinds] : \A i, j \in 1..n : i # j => q[i] # q[j]}
MultiConfigs == {[fam |-> "multins", decl |-> d, assign |-> a, spell |-> sp] :
                   d \in UNION {Perms(n) : n \in 1..3}, a \in BOOLEAN, sp \in {"rel", "abs"}}
TagChoices == [anon : BOOLEAN, kind : {"file", "inline", "module"}, imp : {"one", "star"}]
QuickKinds3 == {<<"file", "file", "inline">>, <<"file", "inline", "module">>, <<"module", "inline", "file">>, <<"inline", "file", "file">>}
TagSeqs == [1..1 -> TagChoices] \cup [1..2 -> TagChoices]
           \cup {q \in [1..3 -> TagChoices] : Tier # "quick" \/ <<q[1].kind, q[2].kind, q[3].kind>> \in QuickKinds3}
ImportConfigs == {[fam |-> "imports", tags |-> t, layout |-> l, ctx |-> c] : t \in TagSeqs, l \in {"lines", "oneline", "text"}, c \in BOOLEAN}
Sources == {"args", "render", "assign", "page"}
IncPositions == {"body", "topdef", "selfdef", "calltag", "nested"}
IncPosConfigs == {[fam |-> "incpos", pos |-> p, sa |-> x, sb |-> y] :
                    p \in IncPositions, x \in SUBSET Sources, y \in {{}, {"args"}, {"render"}, {"assign"}, {"page"}}}
ValClasses == {"truthy", "False", "zero", "empty", "list", "None"}
Supplied == ValClasses \cup {"absent"}
IncValConfigs == {[fam |-> "incval", via |-> v, ea |-> x, ca |-> y, eb |-> p[1], cb |-> p[2]] :
                    v \in {"tag", "call", "nsdef"}, x \in Supplied, y \in Supplied,
                    p \in {<<"absent", "absent">>, <<"None", "truthy">>, <<"zero", "list">>, <<"absent", "False">>}}
Configs == IncValConfigs \cup UriConfigs \cup NsConfigs \cup InhConfigs \cup IncConfigs \cup MultiConfigs \cup IncPosConfigs \cup ImportConfigs

InitWith(c) == /\ cfg = c /\ pc = 1 /\ hop = 1 /\ cur = <<>> /\ memo = {} /\ nsmemo = {} /\ coll = {} /\ imp = {} /\ sattr = {} /\ nsctx = <<>> /\ out = <<>> /\ phase = "run"
Init == /\ cfg \in Configs /\ pc = 1 /\ hop = 1 /\ cur = <<>> /\ memo = {} /\ nsmemo = {} /\ coll = {} /\ imp = {} /\ sattr = {} /\ nsctx = <<>> /\ out = <<>> /\ phase = "run"

(* ================================================================== family "uri" *)
EntryUri(r) == Dirs[r.w] \o <<"w">>
HasL(r, n) == Has(cfg.layout, r, n)
Marker(n, root) == "at|" \o (IF Len(n) = 1 THEN "" ELSE n[1]) \o (IF Len(n) > 2 THEN "/" \o n[2] ELSE "") \o (IF Len(n) > 3 THEN "/" \o n[3] ELSE "")
                   \o "|" \o ToString(root)
(* The memos on the resolution path, with the keys the code uses:                                                     *)
(*   memo    lookup._uri_cache            (uri as written, relativeto)      -> adjusted uri        per lookup        *)
(*   coll    lookup._collection           adjusted uri                       -> template (its root) per lookup        *)
(*   nsmemo  context.namespaces           (namespace object, uri as written) -> namespace (its template's uri)        *)
(*                                        for get_namespace; <%namespace> tags are keyed (module of the declaring     *)
(*                                        template, name): here ("tag", request).  Per render: shared by all the      *)
(*                                        Context copies of one render, emptied when the next render starts.          *)
OneRender == cfg.reach # "none"
(* does this hop go through a per-render namespace memo, and under which namespace object / key? *)
NsKey(r, h) ==
  IF h = 1 THEN (IF r.k1 = "getns" THEN <<"local", pc>> ELSE IF r.k1 = "nsfile" THEN <<"tag", pc>> ELSE <<>>)
  ELSE (IF r.k2 \in {"out.getns", "in.getns"} THEN <<"h", pc>> ELSE <<>>)
NsHit(key, u) == key # <<>> /\ \E m \in nsmemo : m.ns = key /\ m.uri = u
(* one tag is evaluated: runtime._lookup_template(context, uri, calling_uri) *)
Resolve ==
  /\ phase = "run" /\ cfg.fam = "uri" /\ pc <= Len(cfg.reqs)
  /\ LET r == cfg.reqs[pc]
         rel == IF hop = 1 THEN EntryUri(r) ELSE cur          \* hop 1: the URI of `local` = of the template the tag / call is written in
         s == IF hop = 1 THEN r.s1 ELSE r.s2
         fname == IF hop = 1 THEN HopFile(r) ELSE "t"
         key == NsKey(r, hop)
         (* the next request is the next render (fresh Context) unless the whole session is one render *)
         nextreq(nm) == /\ pc' = pc + 1 /\ hop' = 1 /\ cur' = <<>> /\ nsmemo' = (IF OneRender THEN nm ELSE {})
         (* a TemplateLookupException ends the render: in a one-render session nothing more is rendered *)
         failed == /\ out' = Append(out, "exc|lookup") /\ hop' = 1 /\ cur' = <<>> /\ nsmemo' = (IF OneRender THEN nsmemo ELSE {})
                   /\ pc' = (IF OneRender THEN Len(cfg.reqs) + 1 ELSE pc + 1)
     IN IF Spellings[s].empty
        THEN /\ failed /\ memo' = memo /\ coll' = coll                                \* "" names nothing
        ELSE LET u == Uri(s, fname)
                 hit == NsHit(key, u)
                 (* a writer that inherits has had its (absolute) <%inherit> target looked up while the chain was linked *)
                 memoB == IF hop = 1 /\ r.base # 0
                          THEN MemoAfter(memo, [abs |-> TRUE, segs |-> Dirs[r.base] \o <<"bb">>], rel) ELSE memo
                 looked == IF hit THEN (CHOOSE m \in nsmemo : m.ns = key /\ m.uri = u).val ELSE AdjustUri(memoB, u, rel)
                 root == IF \E c \in coll : c.uri = looked THEN (CHOOSE c \in coll : c.uri = looked).root
                         ELSE Locate(looked, NRootsOf(cfg.layout), HasL)
                 nm == IF key = <<>> \/ hit \/ root = 0 THEN nsmemo
                       ELSE nsmemo \cup {[ns |-> key, uri |-> u, rel |-> rel, val |-> looked]}
             IN /\ memo' = (IF hit THEN memoB ELSE MemoAfter(memoB, u, rel))
                /\ coll' = (IF root = 0 THEN coll ELSE coll \cup {[uri |-> looked, root |-> root]})
                /\ IF root = 0 THEN failed
                   ELSE IF fname # "t" THEN /\ out' = out /\ hop' = 2 /\ cur' = looked /\ pc' = pc /\ nsmemo' = nm
                   ELSE /\ out' = Append(out, Marker(Norm(looked), root)) /\ nextreq(nm)
  /\ UNCHANGED <<cfg, nsctx, imp, sattr, phase>>

(* ================================================================== family "nsprec" *)
Provider(c, x) == IF x \in c.I THEN "I" ELSE IF x \in c.F THEN "F" ELSE "ERR"      \* inline callables, then the file / module
(* body start: _mako_get_namespace(context, 'ns')._populate(_import_ns, [...]) *)
PopulateImports ==
  /\ phase = "run" /\ cfg.fam = "nsprec" /\ pc = 1
  /\ imp' = Imported(cfg) /\ pc' = 2
  /\ UNCHANGED <<cfg, nsmemo, coll, nsctx, hop, cur, memo, sattr, out, phase>>
CallSeq == <<"p", "q">>
Unqualified(c, x) == IF x \in imp THEN Provider(c, x) ELSE IF x \in c.C THEN "C" ELSE "ERR"  \* _import_ns.get(x, context.get(x, UNDEFINED))
Calls ==
  /\ phase = "run" /\ cfg.fam = "nsprec" /\ pc \in 2..3
  /\ LET x == CallSeq[pc - 1] IN
     out' = out \o <<"call|ns." \o x, Provider(cfg, x) \o "|" \o x, "call|" \o x, Unqualified(cfg, x) \o "|" \o x>>
  /\ pc' = pc + 1
  /\ UNCHANGED <<cfg, nsmemo, coll, nsctx, hop, cur, memo, imp, sattr, phase>>

(* ================================================================== family "inh" *)
(* linking runs _mako_generate_namespaces of every template of the chain, most derived first,   *)
(* before any body; an inheritable namespace is stored on the most derived `self`.              *)
GenNamespaces ==
  /\ phase = "run" /\ cfg.fam = "inh" /\ hop = 1 /\ pc <= cfg.N
  /\ LET lvl == cfg.N + 1 - pc IN sattr' = (IF lvl = cfg.d THEN sattr \cup {"ns"} ELSE sattr)
  /\ (IF pc = cfg.N THEN hop' = 2 /\ pc' = 1 ELSE hop' = 1 /\ pc' = pc + 1)
  /\ UNCHANGED <<cfg, nsmemo, coll, nsctx, cur, memo, imp, out, phase>>
Bodies ==
  /\ phase = "run" /\ cfg.fam = "inh" /\ hop = 2 /\ pc <= cfg.N
  /\ out' = out \o <<"open|" \o ToString(pc)>>
            \o (IF pc >= cfg.d THEN <<"call|self.ns.p|" \o ToString(pc),
                                      IF "ns" \in sattr THEN (IF cfg.kind = "inline" THEN "I|p" ELSE "F|p") ELSE "ERR|p">> ELSE <<>>)
  /\ pc' = pc + 1
  /\ UNCHANGED <<cfg, nsmemo, coll, nsctx, hop, cur, memo, imp, sattr, phase>>

(* ================================================================== family "include" *)
ArgVal(pat) == CASE pat \in {"args", "both"} -> 1 [] pat = "ctx" -> 2 [] pat = "none" -> 0   \* args first, context second, default
(* what the included template T sees: its own self/local, no parent/next of the includer *)
TargetTokens(c) ==
  IF c.tgt = "hasns"      \* the included template declares a namespace of its own (file O) and uses it
  THEN <<"open|T", "call|tn.who", "who|O", "call|self.who", "who|T", "call|local.who", "who|T", "call|parent.who", "ERR", "call|next.who", "ERR", "close|T">>
  ELSE IF c.tgt = "solo"
  THEN <<"open|T", "arg|a|" \o ToString(ArgVal(c.pa)), "arg|b|" \o ToString(ArgVal(c.pb)),
         "call|self.who", "who|T", "call|local.who", "who|T", "call|parent.who", "ERR", "call|next.who", "ERR", "close|T">>
  ELSE <<"open|TB", "call|self.who", "who|T", "call|next.who", "who|T", "call|parent.who", "ERR",
         "open|T", "call|self.who", "who|T", "call|local.who", "who|T", "call|parent.who", "who|TB", "call|next.who", "ERR", "close|T",
         "close|TB">>
Include ==
  /\ phase = "run" /\ cfg.fam = "include" /\ pc = 1
  /\ out' = CASE cfg.pos = "solo" -> <<"open|M">> \o TargetTokens(cfg) \o <<"close|M">>
              [] cfg.pos = "derived" -> <<"open|B", "open|D">> \o TargetTokens(cfg) \o <<"close|D", "close|B">>
              [] cfg.pos = "base" -> <<"open|B">> \o TargetTokens(cfg) \o <<"open|D", "close|D", "close|B">>
  /\ pc' = 2
  /\ UNCHANGED <<cfg, nsmemo, coll, nsctx, hop, cur, memo, imp, sattr, phase>>

(* ================================================================== family "imports" *)
(* tag k provides the defs d<k> and e<k>; import="d<k>" or "*"; with cfg.ctx the context has callables of all those names *)
DName(k) == "d" \o ToString(k)
EName(k) == "e" \o ToString(k)
ImportedBy(k) == IF cfg.tags[k].imp = "star" THEN {DName(k), EName(k)} ELSE {DName(k)}
(* body start: EVERY tag with import= is a namespace of its own (named or not) and populates _import_ns *)
PopulateTag ==
  /\ phase = "run" /\ cfg.fam = "imports" /\ hop = 1 /\ pc <= Len(cfg.tags)
  /\ imp' = imp \cup {[name |-> x, tag |-> pc] : x \in ImportedBy(pc)}
  /\ (IF pc = Len(cfg.tags) THEN hop' = 2 /\ pc' = 1 ELSE hop' = 1 /\ pc' = pc + 1)
  /\ UNCHANGED <<cfg, nsmemo, coll, nsctx, cur, memo, sattr, out, phase>>
ProviderTok(k, x) == "P" \o ToString(k) \o "|" \o x
UnqualifiedTok(x) == IF \E m \in imp : m.name = x THEN ProviderTok((CHOOSE m \in imp : m.name = x).tag, x)
                     ELSE IF cfg.ctx THEN "C|" \o x ELSE "ERR|" \o x
TagCalls ==
  /\ phase = "run" /\ cfg.fam = "imports" /\ hop = 2 /\ pc <= Len(cfg.tags)
  /\ out' = out \o <<"call|" \o DName(pc), UnqualifiedTok(DName(pc)), "call|" \o EName(pc), UnqualifiedTok(EName(pc))>>
               \o (IF cfg.tags[pc].anon THEN <<>> ELSE <<"call|n" \o ToString(pc) \o "." \o EName(pc), ProviderTok(pc, EName(pc))>>)
  /\ pc' = pc + 1
  /\ UNCHANGED <<cfg, nsmemo, coll, nsctx, hop, cur, memo, imp, sattr, phase>>
(* The member universe of a target is larger than what it exports: besides the exported defs d<k>, e<k> a file target has  *)
(* its body(), a def nested inside d<k> ("inner"), a function render_helper written in <%! %> ("helper" to anything that    *)
(* lists module-level render_* names) and a module attribute m; a module target has a non-callable m.  import="*" and       *)
(* import="d<k>" make exactly the exported defs callable unqualified: every other name is left to the context.  With        *)
(* context variables of those names supplied, the importing template reads ${body} ${helper} ${inner} ${m}.                 *)
OtherNames == <<"body", "helper", "inner", "m">>
ReadOthers ==
  /\ phase = "run" /\ cfg.fam = "imports" /\ hop = 2 /\ pc = Len(cfg.tags) + 1
  /\ out' = (IF cfg.ctx
             THEN out \o <<"read|body", UnqualifiedTok("body"), "read|helper", UnqualifiedTok("helper"),
                           "read|inner", UnqualifiedTok("inner"), "read|m", UnqualifiedTok("m")>>
             ELSE out)
  /\ hop' = 3
  /\ UNCHANGED <<cfg, nsmemo, coll, nsctx, pc, cur, memo, imp, sattr, phase>>

(* ================================================================== family "incpos" *)
(* Values: args= gives 1, render() 2, the body assignment 3, the includer's own <%page args="z=4"/> default 4,      *)
(* T's own default 0; -1 = the name is not in the context.                                                          *)
(* Which context the include statement runs on: a top-level def called BY NAME from the body (and a def nested in   *)
(* it) gets context._locals(__M_locals) -- the body's assignments and page arguments are in it; the body itself, a  *)
(* <%call> body written in the body, and a def reached through self. run on the render context.                     *)
Live(pos) == pos \in {"topdef", "nested"}
CtxAt(pos, S) ==
  IF Live(pos) /\ "assign" \in S THEN 3
  ELSE IF Live(pos) /\ "page" \in S THEN (IF "render" \in S THEN 2 ELSE 4)     \* the page argument holds render()'s value if given
  ELSE IF "render" \in S THEN 2 ELSE -1
(* _kwargs_for_include: args first, then the context at the include point, else the target's default *)
PageArg(pos, S) == IF "args" \in S THEN 1 ELSE IF CtxAt(pos, S) # -1 THEN CtxAt(pos, S) ELSE 0
IncludeAt ==
  /\ phase = "run" /\ cfg.fam = "incpos" /\ pc = 1
  /\ out' = <<"open|M", "open|T",
              "arg|a|" \o ToString(PageArg(cfg.pos, cfg.sa)), "ctx|a|" \o ToString(CtxAt(cfg.pos, cfg.sa)),
              "arg|b|" \o ToString(PageArg(cfg.pos, cfg.sb)), "ctx|b|" \o ToString(CtxAt(cfg.pos, cfg.sb)),
              "close|T", "close|M">>
  /\ pc' = 2
  /\ UNCHANGED <<cfg, nsmemo, coll, nsctx, hop, cur, memo, imp, sattr, phase>>

(* ================================================================== family "incval" *)
(* _kwargs_for_include: an argument is taken from the context only if it is NOT AMONG the explicit ones (membership, not    *)
(* truthiness) and IS AMONG the context's names (whatever its value there); a def called through a namespace never looks    *)
(* at the context for its arguments.  A truthy value prints as its side (E explicit, C context), a falsy one as its class.  *)
ValTok(side, cls) == IF cls = "truthy" THEN side ELSE cls
Bound(via, e, c) == IF e # "absent" THEN ValTok("E", e)
                    ELSE IF via # "nsdef" /\ c # "absent" THEN ValTok("C", c) ELSE "default"
IncludeValues ==
  /\ phase = "run" /\ cfg.fam = "incval" /\ pc = 1
  /\ out' = <<"open|T", "arg|a|" \o Bound(cfg.via, cfg.ea, cfg.ca), "arg|b|" \o Bound(cfg.via, cfg.eb, cfg.cb), "close|T">>
  /\ pc' = 2
  /\ UNCHANGED <<cfg, nsmemo, coll, nsctx, hop, cur, memo, imp, sattr, phase>>

(* ================================================================== family "multins" *)
(* the template a namespace of that kind refers to: what self/local are inside its defs.  An inline def is *)
(* written in the declaring template M itself; a module function has no self.                              *)
OwnId(kind) == CASE kind = "fa" -> "A" [] kind = "fb" -> "B" [] kind = "inl" -> "M" [] kind = "mod" -> "none"
Home(id) == CASE id = "A" -> <<"a", "b">> [] id = "B" -> <<"x">> [] id = "M" -> <<"a">> [] OTHER -> <<>>
(* _mako_generate_namespaces: one namespace after the other, each constructed over its own stripped copy of *)
(* the context; the constructor of a file namespace stores self/local in the copy it was given.            *)
MakeNamespace ==
  /\ phase = "run" /\ cfg.fam = "multins" /\ hop = 1 /\ pc <= Len(cfg.decl)
  /\ nsctx' = Append(nsctx, [self |-> OwnId(cfg.decl[pc]), v |-> 7])
  /\ (IF pc = Len(cfg.decl) THEN hop' = 2 /\ pc' = 1 ELSE hop' = 1 /\ pc' = pc + 1)
  /\ UNCHANGED <<cfg, nsmemo, coll, cur, memo, imp, sattr, out, phase>>
(* what def probe of a namespace of `kind` prints when its context says self = id and v = val *)
Observed(kind, id, val) ==
  IF kind = "mod" THEN <<"probe|P", "ctx|" \o ToString(val)>>
  ELSE <<"probe|" \o (IF kind = "inl" THEN "I" ELSE OwnId(kind)), "sib|" \o id, "uri|" \o id, "suri|" \o id, "attr|" \o id,
         Marker(Home(id) \o <<"t">>, 1), "ctx|" \o ToString(val)>>
Probe ==
  /\ phase = "run" /\ cfg.fam = "multins" /\ hop = 2 /\ pc <= Len(cfg.decl)
  /\ out' = out \o <<"call|" \o cfg.decl[pc]>> \o Observed(cfg.decl[pc], nsctx[pc].self, nsctx[pc].v)
  /\ pc' = pc + 1
  /\ UNCHANGED <<cfg, nsmemo, coll, nsctx, hop, cur, memo, imp, sattr, phase>>

Finished ==
  CASE cfg.fam = "uri" -> pc > Len(cfg.reqs) [] cfg.fam = "nsprec" -> pc > 3
    [] cfg.fam = "inh" -> hop = 2 /\ pc > cfg.N [] cfg.fam \in {"include", "incpos", "incval"} -> pc > 1
    [] cfg.fam = "multins" -> hop = 2 /\ pc > Len(cfg.decl)
    [] cfg.fam = "imports" -> hop = 3
Finish == /\ phase = "run" /\ Finished /\ phase' = "done" /\ UNCHANGED <<cfg, nsmemo, coll, nsctx, pc, hop, cur, memo, imp, sattr, out>>
Next == Resolve \/ PopulateImports \/ Calls \/ GenNamespaces \/ Bodies \/ Include \/ IncludeAt \/ IncludeValues \/ PopulateTag \/ TagCalls \/ ReadOthers \/ MakeNamespace \/ Probe \/ Finish
Spec == Init /\ [][Next]_vars

(* ------------------------------------------------------------------ the property *)
Done == phase = "done"
Toks == {out[k] : k \in 1..Len(out)}
(* what a request must yield, stated directly: relative against the writer's directory, absolute against the root *)
ExpectHop(rel, s, fname) ==
  IF Spellings[s].abs THEN Spellings[s].pre \o <<fname>> ELSE Front(rel) \o Spellings[s].pre \o <<fname>>
(* hop 1: against the writer's own URI; hop 2: against the URI of the template hop 1 reached -- the template the  *)
(* second URI is written in (include / in.<api>) or whose namespace it is resolved through (out.<api>)          *)
ExpectReq(r) ==
  IF Spellings[r.s1].empty THEN "exc|lookup"
  ELSE LET u1 == ExpectHop(EntryUri(r), r.s1, HopFile(r))
           r1 == Locate(u1, NRootsOf(cfg.layout), HasL) IN
       IF r1 = 0 THEN "exc|lookup"
       ELSE IF r.s2 = 0 THEN Marker(Norm(u1), r1)
       ELSE IF Spellings[r.s2].empty THEN "exc|lookup"
       ELSE LET u2 == ExpectHop(u1, r.s2, "t")  r2 == Locate(u2, NRootsOf(cfg.layout), HasL) IN
            IF r2 = 0 THEN "exc|lookup" ELSE Marker(Norm(u2), r2)
RelativeToWriter == (Done /\ cfg.fam = "uri") => \A k \in 1..Len(out) : ~Spellings[cfg.reqs[k].s1].abs => out[k] = ExpectReq(cfg.reqs[k])
AbsoluteToRoot == (Done /\ cfg.fam = "uri") => \A k \in 1..Len(out) : Spellings[cfg.reqs[k].s1].abs => out[k] = ExpectReq(cfg.reqs[k])
UnresolvableRaisesLookup == (Done /\ cfg.fam = "uri") =>
   /\ \A k \in 1..Len(out) : (out[k] = "exc|lookup") <=> (ExpectReq(cfg.reqs[k]) = "exc|lookup")
   /\ Len(out) = Len(cfg.reqs) \/ (OneRender /\ Len(out) >= 1 /\ out[Len(out)] = "exc|lookup")   \* only an exception cuts a render short
(* no memo changes an answer: every entry holds what a fresh computation would give for its key *)
MemoConsistent ==
  /\ MemoConsistentOn(memo)
  /\ \A m \in nsmemo : m.val = Compute(m.uri, m.rel)
  /\ \A m1, m2 \in nsmemo : (m1.ns = m2.ns /\ m1.uri = m2.uri) => m1 = m2
  /\ cfg.fam = "uri" => \A c \in coll : c.root = Locate(c.uri, NRootsOf(cfg.layout), HasL)
InlineDefsWin == (Done /\ cfg.fam = "nsprec") => \A x \in cfg.I : "I|" \o x \in Toks /\ \A k \in 1..Len(out) : out[k] = "call|ns." \o x => out[k + 1] = "I|" \o x
ImportsBeforeContext ==
  /\ (Done /\ cfg.fam = "nsprec") =>
       \A k \in 1..Len(out) : \A x \in Names : (out[k] = "call|" \o x /\ x \in Imported(cfg)) => out[k + 1] \in {"I|" \o x, "F|" \o x}
  (* every import of every tag -- named or anonymous, wherever the tag stands on its line -- is answered by that tag's provider *)
  /\ (Done /\ cfg.fam = "imports") =>
       \A t \in 1..Len(cfg.tags) : \A x \in ImportedBy(t) :
          \E k \in 1..(Len(out) - 1) : out[k] = "call|" \o x /\ out[k + 1] = ProviderTok(t, x)
  (* ... and nothing else is imported: the names a target has but does not export stay with the context *)
  /\ (Done /\ cfg.fam = "imports" /\ cfg.ctx) =>
       \A n \in 1..Len(OtherNames) : \E k \in 1..(Len(out) - 1) : out[k] = "read|" \o OtherNames[n] /\ out[k + 1] = "C|" \o OtherNames[n]
InheritableReachable == (Done /\ cfg.fam = "inh") => \A k \in 1..Len(out) : out[k] \notin {"ERR|p"}
(* what a def of a namespace observes is what it observes when that namespace is the only one declared:  *)
(* it does not depend on which other namespaces the template declares, nor on their order               *)
RECURSIVE SoloSeq(_)
SoloSeq(d) == IF d = <<>> THEN <<>> ELSE <<"call|" \o Head(d)>> \o Observed(Head(d), OwnId(Head(d)), 7) \o SoloSeq(Tail(d))
NamespaceDefsKeepTheirOwnSelf == (Done /\ cfg.fam = "multins") => out = SoloSeq(cfg.decl)
IncludeIndependent == (Done /\ cfg.fam = "include") =>
   \A k \in 1..Len(out) : /\ out[k] \in {"call|self.who", "call|local.who", "call|next.who"} => out[k + 1] \in {"who|T", "ERR"}
                          /\ out[k] = "call|parent.who" => out[k + 1] \in {"who|TB", "ERR"}
(* args first, then the context visible at the include point: the page argument equals what context.get() returns in  *)
(* the included template at that moment (the ctx token), else the default                                             *)
ArgFromTokens(z, S) ==
  \E c \in {-1, 2, 3, 4} : /\ "ctx|" \o z \o "|" \o ToString(c) \in Toks
                          /\ "arg|" \o z \o "|" \o ToString(IF "args" \in S THEN 1 ELSE IF c = -1 THEN 0 ELSE c) \in Toks
IncludeArgsFirst ==
  /\ (Done /\ cfg.fam = "include" /\ cfg.tgt = "solo") =>
       /\ cfg.pa \in {"args", "both"} => "arg|a|1" \in Toks
       /\ cfg.pb \in {"args", "both"} => "arg|b|1" \in Toks
       /\ cfg.pa = "ctx" => "arg|a|2" \in Toks
  /\ (Done /\ cfg.fam = "incpos") => ArgFromTokens("a", cfg.sa) /\ ArgFromTokens("b", cfg.sb)
  (* explicit if GIVEN -- a falsy explicit value is still the explicit value; the context only fills what was not given *)
  /\ (Done /\ cfg.fam = "incval") =>
       /\ cfg.ea # "absent" => "arg|a|" \o ValTok("E", cfg.ea) \in Toks
       /\ cfg.eb # "absent" => "arg|b|" \o ValTok("E", cfg.eb) \in Toks
       /\ (cfg.ea = "absent" /\ cfg.ca # "absent" /\ cfg.via # "nsdef") => "arg|a|" \o ValTok("C", cfg.ca) \in Toks
       /\ (cfg.ea = "absent" /\ (cfg.ca = "absent" \/ cfg.via = "nsdef")) => "arg|a|default" \in Toks
=============================================================================
