-------------------------------- MODULE PySig --------------------------------
(***************************************************************************)
(* Signatures as Mako re-emits them (property C19, second clause: argument *)
(* defaults of defs, blocks and <%page> -- and of <%call> / <%ns:def>      *)
(* bodies -- evaluate to the same values as written).                      *)
(*                                                                         *)
(* PyExpr.tla varies the default EXPRESSION; this module varies the SHAPE  *)
(* of the signature around it.  mako/ast.py FunctionDecl keeps the parsed  *)
(* signature as five lists (argnames, defaults, kwargnames, kwdefaults     *)
(* with a None placeholder per keyword-only parameter without default,     *)
(* varargs/kwargs) and get_argument_expressions() prints it again, walking *)
(* the lists backwards in lockstep.                                        *)
(*                                                                         *)
(* A signature is a sequence of up to MaxParams parameters, each of a kind *)
(*   pos        positional, required                                       *)
(*   posdef     positional with a default                                  *)
(*   vararg     *name                                                      *)
(*   kwonly     keyword-only, required        (only after *name: the bare  *)
(*   kwonlydef  keyword-only with a default    `*` is a documented quirk   *)
(*   kwarg      **name                         and is not generated)       *)
(* in every order Python allows: pos* posdef* [vararg (kwonly|kwonlydef)*] *)
(* [kwarg] -- keyword-only parameters with and without default in any      *)
(* mixture.  AddParam appends one parameter that is legal after the ones    *)
(* present; every default is one of the small expressions of Defaults.      *)
(* Each state prints {kinds, text}: text is the signature as written, the   *)
(* reference.  The harness places it in <%def>, <%block args>, <%page       *)
(* args>, <%call args> and <%self:def args>, reads the generated function   *)
(* back from Template.code, and lets CPython compare the two signatures     *)
(* (ast) and call both relying on every default.                            *)
(***************************************************************************)
EXTENDS Naturals, Sequences, TLC, Json
CONSTANT MaxParams
Kinds == {"pos", "posdef", "vararg", "kwonly", "kwonlydef", "kwarg"}
Defaults == <<"1", "a + b", "'s'">>          \* a, b are module-level names of the template
HasDefault(k) == k \in {"posdef", "kwonlydef"}
Rank(k) == CASE k = "pos" -> 1 [] k = "posdef" -> 2 [] k = "vararg" -> 3
             [] k \in {"kwonly", "kwonlydef"} -> 4 [] k = "kwarg" -> 5
VARIABLES kinds, text, pc
vars == <<kinds, text, pc>>
Init == kinds = <<>> /\ text = "" /\ pc = "build"
Has(k) == \E i \in 1..Len(kinds) : kinds[i] = k
\* Python's grammar of parameter lists (without the bare `*` and without `/`)
LegalNext(k) ==
  /\ (kinds # <<>> => Rank(kinds[Len(kinds)]) <= Rank(k))
  /\ (k \in {"vararg", "kwarg"} => ~Has(k))
  /\ (k \in {"kwonly", "kwonlydef"} => Has("vararg"))
Name(i) == "p" \o ToString(i)
Written(k, i, d) ==
  CASE k = "pos" -> Name(i)
    [] k = "kwonly" -> Name(i)
    [] k = "vararg" -> "*" \o Name(i)
    [] k = "kwarg" -> "**" \o Name(i)
    [] HasDefault(k) -> Name(i) \o "=" \o Defaults[d]
AddParam(k, d) ==
  /\ pc = "build" /\ Len(kinds) < MaxParams /\ LegalNext(k)
  /\ (~HasDefault(k) => d = 1)
  /\ kinds' = Append(kinds, k)
  /\ text' = (IF text = "" THEN "" ELSE text \o ", ") \o Written(k, Len(kinds) + 1, d)
  /\ UNCHANGED pc
Emit == /\ pc = "build" /\ kinds # <<>> /\ pc' = "printed"
        /\ PrintT(ToJson([kinds |-> kinds, text |-> text]))
        /\ UNCHANGED <<kinds, text>>
Next == (\E k \in Kinds, d \in 1..Len(Defaults) : AddParam(k, d)) \/ Emit
Spec == Init /\ [][Next]_vars
\* every enumerated signature is one Python accepts: ranks never decrease, * and ** at most once,
\* keyword-only parameters only behind *name
Legal == /\ \A i, j \in 1..Len(kinds) : i < j => Rank(kinds[i]) <= Rank(kinds[j])
         /\ \A i, j \in 1..Len(kinds) : (i # j /\ kinds[i] = kinds[j]) => kinds[i] \notin {"vararg", "kwarg"}
         /\ \A i \in 1..Len(kinds) : kinds[i] \in {"kwonly", "kwonlydef"} =>
               \E j \in 1..(i - 1) : kinds[j] = "vararg"
         /\ Len(kinds) <= MaxParams
=============================================================================
