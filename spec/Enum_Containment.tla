---------------------------- MODULE Enum_Containment ----------------------------
(***************************************************************************)
(* Enumeration instance of Containment.tla with ONE state per URI: the     *)
(* URI is grown token by token (action Grow of Containment.tla) and the    *)
(* summary `sum` holds, for every generated context, the set of outcomes   *)
(* Outcomes(uri, c) the model allows (a singleton except where the         *)
(* property is silent).  The property is checked on every URI through      *)
(* SumOK (= the invariants Contained / ModulePathInside / OutsideRaises of *)
(* Containment.tla stated over the summary), and every state is exported   *)
(* as one JSON line for the replay against the real TemplateLookup.        *)
(* MC_Containment.tla checks SummaryMatches (step machine = summary) on a  *)
(* smaller bound.  StartUris lets the harness seed the enumeration with    *)
(* given (e.g. random long) URIs instead of the empty one.                 *)
(***************************************************************************)
EXTENDS MC_Containment, IOUtils
CONSTANT StartUris        \* set of token sequences the enumeration starts from ({<<>>} = everything)
VARIABLE sum
StartEmpty == {<<>>}
\* a JSON array of token arrays, file name in the environment variable C09_START
StartFromFile == LET s == JsonDeserialize(IOEnv.C09_START) IN {s[i] : i \in DOMAIN s}
evars == <<vars, sum>>

\* per context: the allowed outcomes and whether they satisfy the property
Summary(u) == [c \in GenCtx |->
                 IF u = <<>> /\ c # "direct" THEN [out |-> {}, ok |-> TRUE]      \* file="" not generated
                 ELSE LET rz == Resolve(u, c)
                          S == OutcomesR(rz, c)
                      IN [out |-> S, ok |-> OutcomesOK(rz, c, S)]]
OutStr(r) == IF r.kind = "exc" THEN "E"
             ELSE IF r.silent THEN "S" \o PathStr(r.path)
             ELSE "F" \o PathStr(r.path) \o "|" \o PathStr(r.mod)
RowOf(u, sm) == [u |-> Cat(u), o |-> [c \in GenCtx |-> {OutStr(r) : r \in sm[c].out}]]
EInit == /\ uri \in StartUris /\ pc = "build" /\ ctx = "none" /\ adj = <<>> /\ di = 0 /\ src = <<>> /\ res = NoRes
         /\ sum = Summary(uri)
ENext == /\ \E t \in Tokens : Grow(t)
         /\ sum' = Summary(uri')
         /\ PrintT(ToJson(RowOf(uri', sum')))
ESpec == EInit /\ [][ENext]_evars
SumOK == \A c \in GenCtx : sum[c].ok
\* initial states are not printed by ENext
ASSUME \A u \in StartUris : PrintT(ToJson(RowOf(u, Summary(u))))
=============================================================================
