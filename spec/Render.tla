------------------------------- MODULE Render -------------------------------
(***************************************************************************************************)
(* Abstract machine for *rendered Mako programs* (properties C03, C05, C13).                       *)
(*                                                                                                 *)
(* A program is a finite tree of TLA+ records (see harness/render_common.py for the grammar):      *)
(* suites of statements  text | mark | expr(parts) | callc | block | inc | if | for | while | try | *)
(* with | py | ret | brk | cont  and expression parts  lit | val | mark | call | cap | cbody.      *)
(* The machine state is the render state of mako/runtime.py:                                       *)
(*   bufs     Context._buffer_stack          (stack of token sequences; top receives writes)       *)
(*   callers  Context.caller_stack           (one frame per render callable: _push_frame)          *)
(*   nc       CallerStack.nextcaller                                                               *)
(*   ls       one LoopStack per function activation (runtime.LoopStack.stack)                      *)
(*   ctl      the Python call/block stack: one frame per active construct                          *)
(* One action per step that the generated module (mako/codegen.py) takes:                          *)
(*   write_render_callable / write_inline_def : _push_frame, [_push_buffer], body, finally:        *)
(*       [_pop_buffer], _pop_frame, then [filter] and return / __M_writer (write_def_finish)       *)
(*   visitCallTag : nextcaller := Namespace(body, defs, __M_caller); try: write(expr) finally:     *)
(*       nextcaller := None; caller.body() runs in the calling scope without a frame               *)
(*   runtime.capture : _push_buffer; try: f() finally: _pop_buffer                                 *)
(*   visitControlLine / mangle_mako_loop : loop = __M_loop._enter(it); try: for..: finally: _exit  *)
(*   runtime._include_file (+ include_error_handler), runtime._exec_template (+ error_handler)     *)
(* While an exception propagates (mode = "exc") every abandoned frame runs exactly the `finally:`  *)
(* part that the generator emits for it.  `return STOP_RENDERING` (mode = "ret") ends the nearest  *)
(* def / call body / template body KEEPING the output accumulated so far (the property); what the  *)
(* code does for buffered/filtered defs is the named deviation "ReturnDropsBuffer" (constant Dev,  *)
(* empty in every property run; only used to classify an observed disagreement).                   *)
(*                                                                                                 *)
(* The machine is deterministic for a given (pid, raiseAt): raiseAt = k makes the k-th executed    *)
(* mark raise.  Every terminal state prints the expected observation as one JSON line.             *)
(***************************************************************************************************)
EXTENDS Integers, Sequences, FiniteSets, TLC, Json
CONSTANTS Progs,        \* sequence of programs (TLA+ literals written by the harness)
          MaxRaise,     \* raise points explored: 0 (none) .. MaxRaise
          Dev           \* set of enabled deviations ({} when the property is checked)
VARIABLES pid, raiseAt, m
vars == <<pid, raiseAt, m>>

None == [k |-> "none"]
IsNone(x) == x.k = "none"
Prog == Progs[pid]
PopS(s) == SubSeq(s, 1, Len(s) - 1)
LastS(s) == s[Len(s)]
TopOf(x) == x.ctl[Len(x.ctl)]
Top == TopOf(m)
Stmt == Top.code[Top.pc]
EmptyEnv == [v \in {} |-> <<>>]
ActKinds == {"top", "def", "body", "inc"}

(* ------------------------------------------------------------------ operators on machine records *)
Adv(x) == [x EXCEPT !.ctl[Len(x.ctl)].pc = @ + 1]
Raise(x, kind) == [x EXCEPT !.mode = "exc", !.exck = kind]
Recs(x, ts) == [i \in 1..Len(ts) |-> [t |-> ts[i], n |-> x.wn + i]]       \* fresh tokens
(* write token records to the top buffer; a write while only the base buffer exists is "direct" *)
WriteRecs(x, rs) ==
  [x EXCEPT !.bufs[Len(x.bufs)] = @ \o rs,
            !.direct = IF Len(x.bufs) = 1 THEN @ \cup {rs[i].n : i \in 1..Len(rs)} ELSE @]
Lit(x, ts) == [WriteRecs(x, Recs(x, ts)) EXCEPT !.wn = @ + Len(ts)]
AccLit(x, ts) == [x EXCEPT !.ctl[Len(x.ctl)].acc = @ \o Recs(x, ts), !.wn = @ + Len(ts)]
Give(x, sink, v) == IF sink = "acc" THEN [x EXCEPT !.ctl[Len(x.ctl)].acc = @ \o v]
                    ELSE IF sink = "write" THEN WriteRecs(x, v)        \* a block renders in place
                    ELSE x
Serials(rs) == {rs[i].n : i \in 1..Len(rs)}
Lose(x, rs) == [x EXCEPT !.lost = @ \cup Serials(rs)]
(* push a control frame; the snapshot of the stacks is taken AFTER the construct's own pushes *)
PushF(x, f) == [x EXCEPT !.ctl = Append(@, f @@ [sb |-> Len(x.bufs), sc |-> x.callers, sl |-> x.ls, snc |-> x.nc])]
Frame(kind, code, par) == [kind |-> kind, code |-> code, pc |-> 1, cal |-> par.cal, lix |-> par.lix]
ActIdxOf(x) == CHOOSE i \in 1..Len(x.ctl) : /\ x.ctl[i].kind \in ActKinds
                                            /\ \A j \in (i + 1)..Len(x.ctl) : x.ctl[j].kind \notin ActKinds
EnvOf(x) == x.ctl[ActIdxOf(x)].vars
LoopOf(x) == LastS(x.ls[TopOf(x).lix])

(* ------------------------------------------------------------------ Python's argument binding    *)
(* params: sequence of [n, kind, dv], kinds in signature order pos* opt* star? (kwo|kwopt)* dstar?  *)
(* args: [pos |-> seq of tokens, kw |-> seq of [n, nt, pcs]] (kw in sorted order of n).  The value of a   *)
(* keyword argument is given as its pieces (a tag attribute `k="lit${e}lit"` is a mixture of literal text   *)
(* and ${} values): each piece is a sequence of atoms, the value is their concatenation in order.           *)
RECURSIVE Flat(_)
Flat(pcs) == IF pcs = <<>> THEN <<>> ELSE pcs[1] \o Flat(SubSeq(pcs, 2, Len(pcs)))
Bind(ps, ar) ==
  LET I == 1..Len(ps)
      npp == Cardinality({i \in I : ps[i].kind \in {"pos", "opt"}})
      np == Len(ar.pos)
      K == 1..Len(ar.kw)
      kwn == {ar.kw[j].n : j \in K}
      named == {ps[i].n : i \in {i \in I : ps[i].kind \in {"pos", "opt", "kwo", "kwopt"}}}
      posFilled == {ps[i].n : i \in {i \in I : i <= np /\ i <= npp}}
      hasStar == \E i \in I : ps[i].kind = "star"
      hasD == \E i \in I : ps[i].kind = "dstar"
      tooMany == np > npp /\ ~hasStar
      dup == kwn \cap posFilled # {}
      unk == (kwn \ named) # {} /\ ~hasD
      missing == \E i \in I : ps[i].kind \in {"pos", "kwo"} /\ ps[i].n \notin (posFilled \cup kwn)
      KwVal(nm) == Flat(ar.kw[CHOOSE j \in K : ar.kw[j].n = nm].pcs)
      DS[j \in 0..Len(ar.kw)] == IF j = 0 THEN <<>>
                                 ELSE DS[j - 1] \o (IF ar.kw[j].n \in named THEN <<>> ELSE <<ar.kw[j].nt>> \o Flat(ar.kw[j].pcs))
      Val(i) == CASE ps[i].kind = "star" -> IF np > npp THEN SubSeq(ar.pos, npp + 1, np) ELSE <<>>
                  [] ps[i].kind = "dstar" -> DS[Len(ar.kw)]
                  [] ps[i].n \in posFilled -> <<ar.pos[i]>>
                  [] ps[i].n \in kwn -> KwVal(ps[i].n)
                  [] OTHER -> <<ps[i].dv>>
  IN [ok |-> ~(tooMany \/ dup \/ unk \/ missing),
      env |-> [nm \in {ps[i].n : i \in I} |-> Val(CHOOSE i \in I : ps[i].n = nm)]]

(* ------------------------------------------------------------------ initial state                *)
Init ==
  /\ pid \in 1..Len(Progs) /\ raiseAt \in 0..MaxRaise
  /\ m = [ctl |-> << [kind |-> "top", code |-> IF Progs[pid].inh THEN Progs[pid].base ELSE Progs[pid].body, pc |-> 1, cal |-> None, lix |-> 1,
                      vars |-> EmptyEnv, ownl |-> TRUE, sb |-> 1, sc |-> <<None>>, sl |-> << <<>> >>, snc |-> None] >>,
          bufs |-> << <<>> >>, callers |-> <<None>>, nc |-> None, ls |-> << <<>> >>,
          mode |-> "run", exck |-> "none", cnt |-> 0, wn |-> 0, obs |-> <<>>,
          lost |-> {}, direct |-> {}, done |-> FALSE, res |-> "ok"]

Running == ~m.done /\ m.mode = "run" /\ Top.pc <= Len(Top.code)
Step(x) == m' = x /\ UNCHANGED <<pid, raiseAt>>

(* ------------------------------------------------------------------ marks (observation, raise)   *)
LoopObs(x) ==
  LET st == x.ls[TopOf(x).lix]
      l == LastS(st)
      B(b) == IF b THEN 1 ELSE 0
  IN <<l.i, l.n, B(l.i = 0), IF l.n >= 0 THEN B(l.i = l.n - 1) ELSE 0 - 1, B(l.i % 2 = 0), B(l.i % 2 = 1),
       IF l.n >= 0 THEN l.n - l.i - 1 ELSE 0 - 1, l.i % 3, IF Len(st) > 1 THEN st[Len(st) - 1].i ELSE 0 - 1>>
Observe(x, s) ==
  [m |-> s.m, b |-> Len(x.bufs), c |-> Len(x.callers), nc |-> ~IsNone(x.nc),
   hc |-> IF s.w = "x" THEN "-" ELSE IF IsNone(TopOf(x).cal) THEN "n" ELSE "y",
   \* enable_loop=False (and no <%page enable_loop>): `loop` is an ordinary name -- whatever the context holds (-7)
   lp |-> IF s.rl THEN (IF Prog.el = "off" THEN <<0 - 7>> ELSE LoopObs(x)) ELSE <<>>]
ExecMark ==
  /\ Running /\ Stmt.k = "mark"
  /\ LET x1 == [Adv(m) EXCEPT !.cnt = @ + 1, !.obs = Append(@, Observe(m, Stmt))]
     IN Step(IF m.cnt + 1 = raiseAt THEN Raise(x1, "boom") ELSE x1)

(* ------------------------------------------------------------------ simple statements and parts  *)
ExecSimple ==
  /\ Running /\ Stmt.k \in {"text", "py", "lit", "val", "ret", "brk", "cont", "mkit", "drain", "itobs"}
  /\ LET s == Stmt IN
     Step(CASE s.k = "text" -> Lit(Adv(m), <<s.t>>)                       \* __M_writer('...')
            [] s.k = "py"   -> Adv([m EXCEPT !.ctl[ActIdxOf(m)].vars = (s.v :> <<s.t>>) @@ @])
            [] s.k = "lit"  -> AccLit(Adv(m), <<s.t>>)
            [] s.k = "val"  -> IF s.v \in DOMAIN EnvOf(m) THEN AccLit(Adv(m), EnvOf(m)[s.v])
                               ELSE Raise(Adv(m), "unbound")                \* UnboundLocalError
            \* a shared iterator (generator function result, generator expression, iterator object with a close()
            \* method): a variable of the function holding the items not yet delivered.  Python's `for` only calls
            \* next(): leaving a loop early leaves the remaining items in place, nothing closes the iterator, and the
            \* `finally:` of a generator function runs only when it is exhausted.
            [] s.k = "mkit" -> Adv([m EXCEPT !.ctl[ActIdxOf(m)].vars = (s.v :> [toks |-> s.toks, pos |-> 0, fin |-> FALSE]) @@ @])
            [] s.k = "drain" ->      \* ''.join(g): what remains is written, the iterator is exhausted
                   IF s.v \notin DOMAIN EnvOf(m) THEN Raise(Adv(m), "unbound")
                   ELSE LET it == EnvOf(m)[s.v] IN
                        Lit(Adv([m EXCEPT !.ctl[ActIdxOf(m)].vars[s.v] = [it EXCEPT !.pos = Len(it.toks), !.fin = TRUE]]),
                            SubSeq(it.toks, it.pos + 1, Len(it.toks)))
            [] s.k = "itobs" ->      \* side effects: the generator's finally has run / close() has been called
                   IF s.v \notin DOMAIN EnvOf(m) THEN Raise(Adv(m), "unbound")
                   ELSE Lit(Adv(m), <<IF s.kind = "genfn" /\ EnvOf(m)[s.v].fin THEN "fin" ELSE "untouched">>)
            [] s.k = "ret"  -> [Adv(m) EXCEPT !.mode = "ret"]
            [] s.k = "brk"  -> [Adv(m) EXCEPT !.mode = "brk"]
            [] s.k = "cont" -> [Adv(m) EXCEPT !.mode = "cont"])

(* ${ ... }: the parts are evaluated left to right into acc, then written at once *)
ExecExpr ==
  /\ Running /\ Stmt.k = "expr"
  /\ Step(PushF(Adv(m), Frame("expr", Stmt.parts, Top) @@ [acc |-> <<>>]))

(* ------------------------------------------------------------------ defs                         *)
(* entering a render callable: _push_frame, optional _push_buffer, LoopStack of the activation *)
Enter(x, d, env, sink) ==
  LET def == Prog.defs[d]
      pb == def.flags # {}
      par == TopOf(x)
      x1 == [x EXCEPT !.callers = Append(@, x.nc), !.nc = None,
                      !.bufs = IF pb THEN Append(@, <<>>) ELSE @,
                      !.ls = IF def.blk THEN @ ELSE Append(@, <<>>)]
  IN PushF(x1, [kind |-> "def", code |-> def.body, pc |-> 1, cal |-> x.nc,
                lix |-> IF def.blk THEN par.lix ELSE Len(x1.ls), flags |-> def.flags, fm |-> def.fm,
                sink |-> sink, vars |-> env, d |-> d, ownl |-> ~def.blk])
(* a call: Python binds the arguments (TypeError before anything is pushed).  A decorator wraps the call:
   it runs first and the wrapped render function binds the arguments when the decorator calls it *)
DoCall(x, d, args, sink) ==
  LET def == Prog.defs[d]
      b == Bind(def.params, args)
  IN IF def.dec
     THEN PushF(x, Frame("dec", <<[k |-> "text", t |-> "D("]>>
                                \o (IF def.dm = 0 THEN <<>> ELSE <<[k |-> "mark", m |-> def.dm, rl |-> FALSE, w |-> "x"]>>)
                                \o <<[k |-> "enter", d |-> d, args |-> args], [k |-> "text", t |-> ")D"]>>, TopOf(x))
                   @@ [acc |-> <<>>, sink |-> sink])
     ELSE IF ~b.ok THEN Raise(x, "type") ELSE Enter(x, d, b.env, sink)
SinkHere == IF Top.kind = "cap" THEN "drop" ELSE "acc"
CallerDef(cal, nm) == LET hit == {i \in 1..Len(cal.defs) : cal.defs[i].n = nm}
                      IN IF hit = {} THEN "" ELSE cal.defs[CHOOSE i \in hit : TRUE].key
ExecCall ==
  /\ Running /\ Stmt.k = "call"
  /\ LET s == Stmt IN
     Step(IF s.via = "caller"          \* ${caller.nd(..)}: a def exported by the call tag, if there is one
          THEN IF IsNone(Top.cal) THEN Adv(m)
               ELSE LET key == CallerDef(Top.cal, s.d) IN
                    IF key = "" THEN Adv(m) ELSE DoCall(Adv(m), key, s.args, SinkHere)
          ELSE DoCall(Adv(m), s.d, s.args, SinkHere))
ExecEnter ==     \* inside a decorator: the wrapped render function is called
  /\ Running /\ Stmt.k = "enter"
  /\ LET b == Bind(Prog.defs[Stmt.d].params, Stmt.args)
     IN Step(IF ~b.ok THEN Raise(Adv(m), "type") ELSE Enter(Adv(m), Stmt.d, b.env, "acc"))
ExecBlock ==     \* anonymous <%block>: an inline def called in place; its content appears at that place
  /\ Running /\ Stmt.k = "block"
  /\ Step(Enter(Adv(m), Stmt.d, EmptyEnv, "write"))
ExecTextFilter ==  \* <%text filter="f">raw</%text>: _push_writer, the text, _pop_buffer_and_writer, filter, write
  /\ Running /\ Stmt.k = "textf"
  /\ LET x == Adv(m) IN
     Step(PushF([x EXCEPT !.wn = @ + 1],
                [kind |-> "fin", code |-> IF Stmt.fm = 0 THEN <<>> ELSE <<[k |-> "mark", m |-> Stmt.fm, rl |-> FALSE, w |-> "x"]>>,
                 pc |-> 1, cal |-> Top.cal, lix |-> Top.lix, val |-> Recs(x, <<Stmt.t>>), flags |-> {"filter"}, sink |-> "drop"]))
ExecNextBody ==    \* ${next.body()} in an inherited (base) template: the inheriting template's render_body
  /\ Running /\ Stmt.k = "nextbody"
  /\ LET x1 == [Adv(m) EXCEPT !.callers = Append(@, m.nc), !.nc = None, !.ls = Append(@, <<>>)]
     IN Step(PushF(x1, [kind |-> "inc", code |-> Prog.body, pc |-> 1, cal |-> m.nc, lix |-> Len(x1.ls),
                        vars |-> EmptyEnv, ownl |-> TRUE, ieh |-> "none"]))

(* leaving a def normally or by `return`: the finally part, then write_def_finish's tail *)
DefFinish(x, drop) ==
  LET f == TopOf(x)
      pb == f.flags # {}
      content == IF pb THEN LastS(x.bufs) ELSE <<>>
      x1 == [x EXCEPT !.bufs = IF pb THEN PopS(@) ELSE @, !.nc = LastS(x.callers), !.callers = PopS(@),
                      !.ls = IF f.ownl THEN PopS(@) ELSE @, !.ctl = PopS(@)]
      par == TopOf(x1)
  IN IF ~pb \/ drop THEN x1
     ELSE IF "filter" \in f.flags
          THEN PushF(x1, [kind |-> "fin", code |-> IF f.fm = 0 THEN <<>> ELSE <<[k |-> "mark", m |-> f.fm, rl |-> FALSE, w |-> "x"]>>,
                          pc |-> 1, cal |-> par.cal, lix |-> par.lix, val |-> content, flags |-> f.flags, sink |-> f.sink])
          ELSE Give(x1, f.sink, content)
(* the filter function has run: the whole content passes the filter once *)
FinExit(x) ==
  LET f == TopOf(x)
      o == Recs(x, <<"F(", ")">>)
      v == <<o[1]>> \o f.val \o <<o[2]>>
      x1 == [x EXCEPT !.ctl = PopS(@), !.wn = @ + 2]
  IN IF "buffered" \in f.flags THEN Give(x1, f.sink, v) ELSE WriteRecs(x1, v)

(* ------------------------------------------------------------------ capture, calls with content  *)
ExecCapture ==
  /\ Running /\ Stmt.k = "cap"
  /\ LET s == Stmt
         x1 == [Adv(m) EXCEPT !.bufs = Append(@, <<>>)]
     IN Step(PushF(x1, Frame("cap", <<[k |-> "call", d |-> s.d, via |-> "name", args |-> s.args]>>, Top)
                       @@ [below |-> LastS(m.bufs)]))
ExecCallContent ==
  /\ Running /\ Stmt.k = "callc"
  /\ LET s == Stmt
         ns == [k |-> "ns", body |-> s.body, bparams |-> s.bparams, defs |-> s.defs, outer |-> Top.cal, lix |-> Top.lix]
     IN Step(PushF([Adv(m) EXCEPT !.nc = ns], Frame("callc", s.parts, Top) @@ [acc |-> <<>>]))
ExecCallerBody ==
  /\ Running /\ Stmt.k = "cbody"
  /\ LET ns == Top.cal IN
     Step(IF IsNone(ns) THEN Adv(m)
          ELSE LET b == Bind(ns.bparams, Stmt.args) IN
               IF ~b.ok THEN Raise(Adv(m), "type")
               ELSE PushF(Adv(m), [kind |-> "body", code |-> ns.body, pc |-> 1, cal |-> ns.outer, lix |-> ns.lix,
                                   vars |-> b.env, ownl |-> FALSE]))

(* ------------------------------------------------------------------ includes                     *)
ExecInclude ==
  /\ Running /\ Stmt.k = "inc"
  /\ LET t == Prog.incs[Stmt.t]
         x1 == [Adv(m) EXCEPT !.callers = Append(@, m.nc), !.nc = None, !.ls = Append(@, <<>>)]
     IN Step(PushF(x1, [kind |-> "inc", code |-> t.body, pc |-> 1, cal |-> m.nc, lix |-> Len(x1.ls),
                        vars |-> EmptyEnv, ownl |-> TRUE, ieh |-> t.ieh]))

(* ------------------------------------------------------------------ control lines                *)
Cond(x, c) == CASE c.ck = "const" -> c.v
                [] c.ck = "even" -> LoopOf(x).i % 2 = 0
                [] c.ck = "first" -> LoopOf(x).i = 0
(* The expression of a control line is evaluated BEFORE the construct is entered: the iterable of `% for`
   (loop = __M_loop._enter(<iterable>): the argument is evaluated first, so an exception there leaves the
   LoopStack untouched), the conditions of % if / % elif (in order, until one holds) and % while (before every
   iteration), the context expression of % with.  A mark inside such an expression (field im / cm, None if
   absent) runs in a "ceval" frame that pushes nothing; when it completes, AfterEval enters the construct. *)
PopCtl(x) == [x EXCEPT !.ctl = PopS(@)]
Ceval(x, mk, s, arm) == PushF(x, Frame("ceval", <<mk>>, TopOf(x)) @@ [st |-> s, arm |-> arm])
RECURSIVE IfFrom(_, _, _)
IfFrom(x, s, i) ==
  IF i > Len(s.arms) THEN PushF(x, Frame("plain", s.els, TopOf(x)))
  ELSE IF ~IsNone(s.arms[i].c.cm) THEN Ceval(x, s.arms[i].c.cm, s, i)
  ELSE IF Cond(x, s.arms[i].c) THEN PushF(x, Frame("plain", s.arms[i].a, TopOf(x)))
  ELSE IfFrom(x, s, i + 1)
EnterFor(x, s) ==      \* the iterable has been evaluated: push the loop context, then iterate (or the else clause)
  LET par == TopOf(x)
      x1 == [x EXCEPT !.ls[par.lix] = Append(@, [i |-> 0, n |-> IF s.sized THEN s.n ELSE 0 - 1])]
  IN IF s.src # ""        \* a shared iterator: the frame starts "at its end", where next() is called
     THEN IF s.src \notin DOMAIN EnvOf(x) THEN Raise(x, "unbound")
          ELSE PushF(x1, [Frame("for", s.a, par) EXCEPT !.pc = Len(s.a) + 1] @@ [n |-> 0, i |-> 0, els |-> s.els, src |-> s.src, first |-> TRUE])
     ELSE IF s.n > 0 THEN PushF(x1, Frame("for", s.a, par) @@ [n |-> s.n, i |-> 0, els |-> s.els, src |-> "", first |-> FALSE])
     ELSE PushF(x1, Frame("fels", s.els, par))
EnterWith(x, s) == PushF(Lit(x, <<s.t1>>), Frame("with", s.a, TopOf(x)) @@ [t2 |-> s.t2])
WhileTest(x) ==        \* the condition has been evaluated; the while frame is on top
  LET f == TopOf(x) IN
  IF f.i < f.n THEN [x EXCEPT !.ctl[Len(x.ctl)] = [f EXCEPT !.pc = 1, !.i = @ + 1]] ELSE PopCtl(x)
AfterEval(x, s, arm) ==
  CASE s.k = "for" -> EnterFor(x, s)
    [] s.k = "with" -> EnterWith(x, s)
    [] s.k = "while" -> WhileTest(x)
    [] s.k = "if" -> IF Cond(x, s.arms[arm].c) THEN PushF(x, Frame("plain", s.arms[arm].a, TopOf(x)))
                     ELSE IfFrom(x, s, arm + 1)
ExecIf ==
  /\ Running /\ Stmt.k = "if"
  /\ Step(IfFrom(Adv(m), Stmt, 1))
ExecFor ==
  /\ Running /\ Stmt.k = "for"
  /\ Step(IF IsNone(Stmt.im) THEN EnterFor(Adv(m), Stmt) ELSE Ceval(Adv(m), Stmt.im, Stmt, 0))
ExecWhile ==           \* the frame starts "at its end": running off the end is where the condition is tested
  /\ Running /\ Stmt.k = "while"
  /\ Step(PushF(Adv(m), [Frame("while", Stmt.a, Top) EXCEPT !.pc = Len(Stmt.a) + 1] @@ [n |-> Stmt.n, i |-> 0, cm |-> Stmt.cm]))
ExecTry ==
  /\ Running /\ Stmt.k = "try"
  /\ Step(PushF(Adv(m), Frame("try", Stmt.a, Top) @@ [h |-> Stmt.h]))
ExecWith ==
  /\ Running /\ Stmt.k = "with"
  /\ Step(IF IsNone(Stmt.cm) THEN EnterWith(Adv(m), Stmt) ELSE Ceval(Adv(m), Stmt.cm, Stmt, 0))

(* ------------------------------------------------------------------ a frame runs off its end     *)
PopLoop(x, f) == [x EXCEPT !.ls[f.lix] = PopS(@)]
BumpLoop(x, f) == [x EXCEPT !.ls[f.lix][Len(x.ls[f.lix])].i = @ + 1]
ToElse(x1, f) ==    \* exhausted: the else clause runs with `loop` still pushed
  [x1 EXCEPT !.ctl[Len(x1.ctl)] = [kind |-> "fels", code |-> f.els, pc |-> 1, cal |-> f.cal, lix |-> f.lix,
                                   sb |-> f.sb, sc |-> f.sc, sl |-> x1.ls, snc |-> f.snc]]
NextIter(x, f) ==   \* the for frame re-enters its body, or is exhausted
  IF f.src # ""
  THEN LET ai == ActIdxOf(x)
           it == x.ctl[ai].vars[f.src]
           x0 == IF f.first THEN x ELSE BumpLoop(x, f)      \* LoopContext.index advances when the generator is resumed
       IN IF it.pos < Len(it.toks)
          THEN [x0 EXCEPT !.ctl[ai].vars[f.src].pos = @ + 1,
                          !.ctl[Len(x.ctl)] = [f EXCEPT !.pc = 1, !.first = FALSE, !.sl = x0.ls]]
          ELSE ToElse([x0 EXCEPT !.ctl[ai].vars[f.src].fin = TRUE], f)
  ELSE IF f.i + 1 < f.n
       THEN LET x1 == BumpLoop(x, f) IN [x1 EXCEPT !.ctl[Len(x.ctl)] = [f EXCEPT !.pc = 1, !.i = @ + 1, !.sl = x1.ls]]
       ELSE ToElse(BumpLoop(x, f), f)
ActExit(x, f) ==    \* top / inc : finally: _pop_frame
  [x EXCEPT !.nc = LastS(x.callers), !.callers = PopS(@), !.ls = PopS(@), !.ctl = PopS(@)]
ExitFrame ==
  /\ ~m.done /\ m.mode = "run" /\ Top.pc > Len(Top.code)
  /\ LET f == Top IN
     Step(CASE f.kind = "top" -> [ActExit(m, f) EXCEPT !.done = TRUE]
            [] f.kind = "inc" -> ActExit(m, f)
            [] f.kind = "def" -> DefFinish(m, FALSE)
            [] f.kind = "fin" -> FinExit(m)
            [] f.kind = "dec" -> Give(PopCtl(m), f.sink, f.acc)
            [] f.kind = "expr" -> WriteRecs(PopCtl(m), f.acc)
            [] f.kind = "callc" -> WriteRecs([PopCtl(m) EXCEPT !.nc = None], f.acc)
            [] f.kind = "cap" -> Give([PopCtl(m) EXCEPT !.bufs = PopS(@)], "acc", LastS(m.bufs))
            [] f.kind = "for" -> NextIter(m, f)
            [] f.kind = "while" -> IF IsNone(f.cm) THEN WhileTest(m) ELSE Ceval(m, f.cm, [k |-> "while"], 0)
            [] f.kind = "ceval" -> AfterEval(PopCtl(m), f.st, f.arm)
            [] f.kind = "fels" -> PopLoop(PopCtl(m), f)
            [] f.kind = "with" -> Lit(PopCtl(m), <<f.t2>>)
            [] OTHER -> PopCtl(m))                      \* plain, try, hnd, body

(* ------------------------------------------------------------------ exception propagation        *)
(* every abandoned frame runs the `finally:` the generator emits for it *)
Unwind ==
  /\ ~m.done /\ m.mode = "exc"
  /\ LET f == Top IN
     Step(CASE f.kind = "try" /\ m.exck = "boom" ->
                   [m EXCEPT !.ctl[Len(m.ctl)] = [f EXCEPT !.kind = "hnd", !.code = f.h, !.pc = 1], !.mode = "run", !.exck = "none"]
            [] f.kind = "def" ->
                   LET pb == f.flags # {}
                       x1 == IF pb THEN Lose(m, LastS(m.bufs)) ELSE m
                   IN [x1 EXCEPT !.bufs = IF pb THEN PopS(@) ELSE @, !.nc = LastS(m.callers), !.callers = PopS(@),
                                 !.ls = IF f.ownl THEN PopS(@) ELSE @, !.ctl = PopS(@)]
            [] f.kind = "cap" -> [Lose(m, LastS(m.bufs)) EXCEPT !.bufs = PopS(@), !.ctl = PopS(@)]
            [] f.kind = "callc" -> [Lose(m, f.acc) EXCEPT !.nc = None, !.ctl = PopS(@)]
            [] f.kind \in {"expr", "dec"} -> PopCtl(Lose(m, f.acc))
            [] f.kind = "fin" -> PopCtl(Lose(m, f.val))
            [] f.kind \in {"for", "fels"} -> PopLoop(PopCtl(m), f)
            [] f.kind = "with" -> Lit(PopCtl(m), <<f.t2>>)
            [] f.kind = "inc" ->
                   \* runtime._include_file: `except Exception:` around the included body -- a planted exception
                   \* that derives from BaseException only passes through; the handler is called, writes, and
                   \* returns True (handled), returns a false value (declines: the original propagates) or raises
                   \* a different exception (which propagates instead)
                   IF f.ieh = "none" \/ (m.exck = "boom" /\ ~Prog.xb) THEN ActExit(m, f)
                   ELSE LET xi == Lit(ActExit(m, f), <<"ieh">>) IN
                        (CASE f.ieh = "true" -> [xi EXCEPT !.mode = "run", !.exck = "none"]
                           [] f.ieh = "false" -> xi
                           [] f.ieh = "raise" -> [xi EXCEPT !.exck = "other"])
            [] f.kind = "top" ->
                   \* runtime._exec_template / _render_error: error_handler (called for every exception class),
                   \* format_exceptions, or propagate to the caller of render()
                   IF Prog.eh # "none"
                   THEN LET xt == [Lit(ActExit(m, f), <<"eh">>) EXCEPT !.done = TRUE] IN
                        (CASE Prog.eh = "true" -> [xt EXCEPT !.mode = "run", !.exck = "none", !.res = "handled"]
                           [] Prog.eh = "false" -> [xt EXCEPT !.res = "exc:" \o m.exck]
                           [] Prog.eh = "raise" -> [xt EXCEPT !.exck = "other", !.res = "exc:other"])
                   ELSE IF Prog.fe
                        THEN [ActExit(m, f) EXCEPT !.bufs = << <<[t |-> "ERRPAGE", n |-> m.wn + 1]>> >>, !.wn = @ + 1, !.direct = {},
                                                   !.mode = "run", !.exck = "none", !.done = TRUE, !.res = "page"]
                        ELSE [ActExit(m, f) EXCEPT !.done = TRUE, !.res = "exc:" \o m.exck]
            [] OTHER -> PopCtl(m))                      \* plain, while, hnd, body, try (other exception)

(* `return STOP_RENDERING`: leaves loops / try / if / with frames, ends the nearest activation *)
Return ==
  /\ ~m.done /\ m.mode = "ret"
  /\ LET f == Top IN
     Step(CASE f.kind = "def" -> [DefFinish(m, "ReturnDropsBuffer" \in Dev) EXCEPT !.mode = "run"]
            [] f.kind = "body" -> [PopCtl(m) EXCEPT !.mode = "run"]
            [] f.kind = "inc" -> [ActExit(m, f) EXCEPT !.mode = "run"]
            [] f.kind = "top" -> [ActExit(m, f) EXCEPT !.mode = "run", !.done = TRUE]
            [] f.kind \in {"for", "fels"} -> PopLoop(PopCtl(m), f)
            [] f.kind = "with" -> Lit(PopCtl(m), <<f.t2>>)
            [] OTHER -> PopCtl(m))
BreakCont ==
  /\ ~m.done /\ m.mode \in {"brk", "cont"}
  /\ LET f == Top IN
     Step(CASE f.kind = "for" /\ m.mode = "brk" -> [PopLoop(PopCtl(m), f) EXCEPT !.mode = "run"]
            [] f.kind = "while" /\ m.mode = "brk" -> [PopCtl(m) EXCEPT !.mode = "run"]
            [] f.kind \in {"for", "while"} /\ m.mode = "cont" ->
                   [m EXCEPT !.ctl[Len(m.ctl)].pc = Len(f.code) + 1, !.mode = "run"]
            [] f.kind = "fels" -> PopLoop(PopCtl(m), f)      \* break/continue in a for-else belong to the outer loop
            [] f.kind = "with" -> Lit(PopCtl(m), <<f.t2>>)
            [] OTHER -> PopCtl(m))

Next == \/ ExecMark \/ ExecSimple \/ ExecExpr \/ ExecCall \/ ExecEnter \/ ExecBlock \/ ExecCapture
        \/ ExecCallContent \/ ExecCallerBody \/ ExecInclude \/ ExecTextFilter \/ ExecNextBody \/ ExecIf \/ ExecFor \/ ExecWhile \/ ExecTry
        \/ ExecWith \/ ExitFrame \/ Unwind \/ Return \/ BreakCont
Spec == Init /\ [][Next]_vars

(* ================================================================== properties                   *)
Frames == 1..Len(m.ctl)
CountF(S) == Cardinality({i \in Frames : m.ctl[i].kind \in S})
PushesBuffer(f) == (f.kind = "def" /\ f.flags # {}) \/ f.kind = "cap"
(* the three stacks always mirror the nesting of active constructs *)
StackDiscipline ==
  ~m.done => /\ Len(m.bufs) = 1 + Cardinality({i \in Frames : PushesBuffer(m.ctl[i])})
             /\ Len(m.callers) = CountF({"top", "def", "inc"})
             /\ Len(m.ls) = Cardinality({i \in Frames : m.ctl[i].kind \in ActKinds /\ m.ctl[i].ownl})
LoopStackMatchesNesting ==
  ~m.done => \A k \in 1..Len(m.ls) :
                Len(m.ls[k]) = Cardinality({i \in Frames : m.ctl[i].kind \in {"for", "fels"} /\ m.ctl[i].lix = k})
Balanced == m.done => /\ Len(m.bufs) = 1 /\ m.callers = <<>> /\ m.ls = <<>> /\ IsNone(m.nc)
NextCallerOnlyAroundCalls == (~m.done /\ ~IsNone(m.nc)) => \E i \in Frames : m.ctl[i].kind = "callc"
(* whenever control is back in a frame -- after a call, a loop, a handled or propagating exception,
   a return/break travelling outwards -- the stacks are what they were when the frame was entered *)
BufferRestored == ~m.done => Len(m.bufs) = Top.sb
CallerRestored == ~m.done => m.callers = Top.sc /\ m.nc = Top.snc
LoopRevert     == ~m.done => m.ls = Top.sl
RestoredAtHandler ==
  (~m.done /\ Top.kind = "hnd") => Len(m.bufs) = Top.sb /\ m.callers = Top.sc /\ m.nc = Top.snc /\ m.ls = Top.sl
(* tokens of abandoned buffers / abandoned expression values never survive; direct writes stay *)
PartialDiscarded ==
  /\ \A i \in 1..Len(m.bufs) : Serials(m.bufs[i]) \cap m.lost = {}
  /\ ~m.done => \A i \in Frames : "acc" \in DOMAIN m.ctl[i] => Serials(m.ctl[i].acc) \cap m.lost = {}
  /\ m.direct \subseteq Serials(m.bufs[1])
(* capture() leaves the output untouched while it runs *)
CaptureLeavesOutput ==
  ~m.done => \A i \in Frames : m.ctl[i].kind = "cap" => m.bufs[m.ctl[i].sb - 1] = m.ctl[i].below
(* filter brackets in the final output are well nested: content passes its filter exactly once *)
FilterOnce ==
  m.done => LET o == m.bufs[1]
                Cnt(i, t) == Cardinality({j \in 1..i : o[j].t = t})
            IN /\ Cnt(Len(o), "F(") = Cnt(Len(o), ")")
               /\ \A i \in 1..Len(o) : o[i].t = ")" => Cnt(i, "F(") >= Cnt(i, ")")
(* an unhandled exception reaches the top as itself; a handled one does not *)
Propagates == m.done => (m.res = "ok" \/ m.res = "handled" \/ m.res = "page" \/ (m.mode = "exc" /\ m.res = "exc:" \o m.exck))

Strip(rs) == [i \in 1..Len(rs) |-> rs[i].t]
Emit == ~(m.done /\ PrintT(ToJson([pid |-> pid, ra |-> raiseAt, out |-> Strip(m.bufs[1]), obs |-> m.obs, res |-> m.res,
                                   cnt |-> m.cnt, fb |-> Len(m.bufs), fc |-> Len(m.callers), fnc |-> ~IsNone(m.nc)])) /\ FALSE)
=============================================================================
