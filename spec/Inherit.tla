------------------------------ MODULE Inherit ------------------------------
(***************************************************************************)
(* C06 -- inheritance chains: how self / next / parent / local are linked  *)
(* and answer, which body runs, where named blocks render, anonymous       *)
(* blocks, arguments of body(), dynamic inherit targets; plus the compile- *)
(* time rejections of misplaced / duplicate named blocks.                  *)
(*                                                                         *)
(* Mirrors (one action per step the runtime takes):                        *)
(*   mako/runtime.py  _render_context, _populate_self_namespace            *)
(*                    (PopulateSelf), _inherit_from (InheritFrom: walk to  *)
(*                    the end of the `inherits` chain, copy the context    *)
(*                    with `next`, link, set parent/local),                *)
(*                    TemplateNamespace.__getattr__ (NsLookup + the        *)
(*                    setattr memo), _NSAttr.__getattr__ (attr walk),      *)
(*   mako/codegen.py  write_inherit (target may be an expression),         *)
(*                    visitBlockTag (Step/"here": render iff there is no   *)
(*                    parent or the parent cannot resolve the name),       *)
(*                    _Identifiers.visitBlockTag/_check_name_exists        *)
(*                    (Rejected).                                          *)
(*                                                                         *)
(* A configuration `cfg` is a set of templates 1..N+1.  1..N is the chain  *)
(* written by the author (N is the template that is rendered, i inherits   *)
(* from i-1), N+1 is an alternative base that a *dynamic* <%inherit> may   *)
(* select.  Every template carries its scripts (body, def f, blocks b, c)  *)
(* as sequences of ops; the machine below links the namespaces step by     *)
(* step and then interprets the scripts, producing the token sequence      *)
(* `out` that the real render must produce.  The property is stated over   *)
(* the *chain as configured* (Chain, NearestFrom), independently of the    *)
(* links the actions build.                                                *)
(***************************************************************************)
EXTENDS Integers, Sequences, FiniteSets, TLC, UriPath
CONSTANTS MaxN,             \* MaxN[fam]: longest chain enumerated for that family
          TraceTpl(_, _)    \* trace validation only: template i of recorded trace t (flags + scripts)
NONE == 0
VARIABLES cfg, phase, cur, inh, ctx, memo, stack, out, hist
vars == <<cfg, phase, cur, inh, ctx, memo, stack, out, hist>>

Op(o, v, n) == [op |-> o, via |-> v, name |-> n]
Tok(k, n, l, x) == [k |-> k, n |-> n, l |-> l, x |-> x]
Ids == 1..(cfg.N + 1)
IsTrace == cfg.fam = "trace"

(* ------------------------------------------------------------------ standard templates (MC) *)
(* cfg = [fam, N, ch, mode, k, sw, pa]: ch[i] = which members level i declares, mode = how bodies *)
(* are chained, k = the level (ANY level 1..N; 0: none) whose <%inherit> is an expression, sw =   *)
(* what that expression yields at render time: "p1" the template below (i-1), "p2" the alternative *)
(* base N+1, "none" = None, i.e. "do not inherit this time" -- k then IS the base-most ancestor of  *)
(* the resulting chain, whatever its position in the chain as written.                             *)
If(c, s) == IF c THEN s ELSE <<>>
DecoyCh == [f |-> TRUE, a |-> "truthy", b |-> TRUE, c |-> "none"]
StdCh(i) == IF i = cfg.N + 1 THEN DecoyCh ELSE cfg.ch[i]
StdInh(i) == IF i = cfg.N + 1 \/ (i = 1 /\ cfg.k # 1) THEN "none" ELSE IF i = cfg.k THEN "dyn" ELSE "static"
StdHn(i) == i # cfg.N
StdFlags(i) == LET ch == StdCh(i) IN
  [f |-> ch.f, a |-> ch.a, b |-> ch.b, c |-> ch.c, inh |-> StdInh(i),
   p1 |-> IF StdInh(i) = "none" THEN NONE ELSE i - 1, p2 |-> IF StdInh(i) = "dyn" THEN cfg.N + 1 ELSE NONE]
(* the body script of a family exercises the members that family varies *)
StdBody(t, hp, hn, mode, fam) ==
  LET wf == fam \in {"dispatch", "dyn", "entry", "dirs"}  wa == fam \in {"attrs", "entry"} IN
  <<Op("open", "", "")>>
  \o If(wf, <<Op("call", "self", "f")>>)
  \o If(wf /\ hn, <<Op("call", "next", "f")>>)
  \o If(wf /\ hp, <<Op("call", "parent", "f")>>)
  \o If(wf, <<Op("call", "local", "f")>>)
  \o If(wa, <<Op("attr", "self", "a")>>)
  \o If(wa /\ hn, <<Op("attr", "next", "a")>>)
  \o If(wa /\ hp, <<Op("attr", "parent", "a")>>)
  \o If(wa, <<Op("attr", "local", "a")>>)
  \o If(fam # "args", <<Op("anon", "", "")>>)
  \o If(t.b, <<Op("here", "", "b")>>)
  \o If(mode = "next" /\ hn, <<Op("body", "next", "")>>)
  \o If(mode = "self" /\ hn /\ ~hp, <<Op("body", "self", "")>>)
  \o If(t.c = "top", <<Op("here", "", "c")>>)
  \o <<Op("close", "", "")>>
StdF(hp) == <<Op("emit", "f", "")>> \o If(hp, <<Op("call", "parent", "f")>>)
StdB(t, hp) == <<Op("emit", "B", "b")>> \o If(hp, <<Op("call", "parent", "b")>>)
               \o If(t.c = "inb", <<Op("here", "", "c")>>) \o <<Op("emit", "/B", "b")>>
StdC == <<Op("emit", "B", "c"), Op("emit", "/B", "c")>>
(* def probe: written in every template; looks at all four namespaces whether or not they exist there *)
StdProbe == <<Op("emit", "probe", ""), Op("call", "self", "f"), Op("call", "local", "f"), Op("call", "parent", "f"), Op("call", "next", "f"),
              Op("attr", "self", "a"), Op("attr", "local", "a"), Op("attr", "parent", "a"), Op("attr", "next", "a")>>
StdScript(i, kind) == LET hp == StdInh(i) # "none" IN
  CASE kind = "body" -> StdBody(StdCh(i), hp, StdHn(i), cfg.mode, cfg.fam) [] kind = "f" -> StdF(hp)
    [] kind = "b" -> StdB(StdCh(i), hp) [] kind = "c" -> StdC [] kind = "probe" -> StdProbe

(* flags of template i: [f, a, b, c, inh, p1, p2]; scripts of template i *)
T(i) == IF IsTrace THEN TraceTpl(cfg.id, i) ELSE StdFlags(i)
ScriptOf(i, kind) ==
  IF IsTrace THEN LET t == TraceTpl(cfg.id, i) IN
       CASE kind = "body" -> t.body [] kind = "f" -> t.fs [] kind = "b" -> t.bs [] kind = "c" -> t.cs [] kind = "probe" -> t.ps
  ELSE StdScript(i, kind)
FullTpl(i) == T(i) @@ [body |-> ScriptOf(i, "body"), fs |-> ScriptOf(i, "f"), bs |-> ScriptOf(i, "b"), cs |-> ScriptOf(i, "c")]
(* the template the author of i means to inherit from, as write_inherit's expression would choose it *)
Written(i) == CASE T(i).inh = "none" -> NONE
               [] T(i).inh = "static" -> T(i).p1
               [] T(i).inh = "dyn" -> CASE cfg.sw = "p1" -> T(i).p1 [] cfg.sw = "p2" -> T(i).p2 [] cfg.sw = "none" -> NONE
(* WHERE the templates live and HOW an inherit target is written (families "dirs" and trace; elsewhere everything is in  *)
(* one directory and targets are absolute).  Template i is the file t<i> in directory DirOf(i); its <%inherit> (static or *)
(* the value of the expression) is spelled "abs" (/dir/t), "rel" (relative to i's OWN directory: bare name, ../x/t, b/t)  *)
(* or "dotrel" (the same with a leading ./).  The target that is actually inherited is found by the rule of UriPath.tla:    *)
(* runtime._inherit_from -> _lookup_template(context, uri, calling_uri) with calling_uri = the uri of the template that     *)
(* WRITES the <%inherit> (not of `self`, the leaf).                                                                         *)
ChainDirs == << <<>>, <<"a", "b">>, <<"x">> >>
UsesDirs == cfg.fam \in {"dirs", "trace"}
DirOf(i) == IF IsTrace THEN TraceTpl(cfg.id, i).dir ELSE IF cfg.fam = "dirs" THEN ChainDirs[cfg.dirs[i]] ELSE <<>>
SpellOf(i) == IF IsTrace THEN TraceTpl(cfg.id, i).spell ELSE IF cfg.fam = "dirs" THEN cfg.spell[i] ELSE "abs"
TName(i) == "t" \o ToString(i)
Path(i) == DirOf(i) \o <<TName(i)>>
RECURSIVE CommonLen(_, _)
CommonLen(x, y) == IF x = <<>> \/ y = <<>> \/ Head(x) # Head(y) THEN 0 ELSE 1 + CommonLen(Tail(x), Tail(y))
RelSegs(from, to) == LET c == CommonLen(from, to) IN [k \in 1..(Len(from) - c) |-> ".."] \o SubSeq(to, c + 1, Len(to))
SpelledPre(i, j) == CASE SpellOf(i) = "abs" -> DirOf(j) [] SpellOf(i) = "rel" -> RelSegs(DirOf(i), DirOf(j))
                      [] SpellOf(i) = "dotrel" -> <<".">> \o RelSegs(DirOf(i), DirOf(j))
SpelledTo(i, j) == [abs |-> SpellOf(i) = "abs", segs |-> SpelledPre(i, j) \o <<TName(j)>>]
Resolved(i) ==
  LET w == Written(i) IN
  IF w = NONE THEN NONE
  ELSE LET n == Norm(Compute(SpelledTo(i, w), Path(i))) IN
       IF \E j \in Ids : Path(j) = n THEN CHOOSE j \in Ids : Path(j) = n ELSE NONE
Target(i) == IF UsesDirs THEN Resolved(i) ELSE Written(i)

Choices(fam) ==
  CASE fam = "dispatch" -> [f : BOOLEAN, a : {"none"}, b : {FALSE}, c : {"none"}]
    \* module attribute a: not defined / defined with a falsy value / defined with a truthy value (values distinct per level)
    [] fam = "attrs" -> [f : {FALSE}, a : {"none", "falsy", "truthy"}, b : {FALSE}, c : {"none"}]
    [] fam = "blocks" -> {ch \in [f : {FALSE}, a : {"none"}, b : BOOLEAN, c : {"none", "top", "inb"}] : ch.c = "inb" => ch.b}
    [] fam = "args" -> [f : {FALSE}, a : {"none"}, b : BOOLEAN, c : {"none"}]
    [] fam = "dyn" -> [f : BOOLEAN, a : {"none"}, b : BOOLEAN, c : {"none"}]
    [] fam = "entry" -> [f : BOOLEAN, a : {"none", "truthy"}, b : {FALSE}, c : {"none"}]
    [] fam = "dirs" -> [f : {TRUE}, a : {"truthy"}, b : {FALSE}, c : {"none"}]
Modes(fam) == CASE fam = "blocks" -> {"next", "self", "none"} [] fam = "args" -> {"next", "self"} [] OTHER -> {"next"}
Families == {"dispatch", "attrs", "blocks", "args", "dyn", "entry", "dirs"}
(* The render REQUEST: made on template `top` of the chain as written (any level, not only N: the templates below *)
(* `top` form its chain, the ones above are simply not part of this render), through entry point `entry`:        *)
(*   "render"  Template.render / render_unicode / render_context: the body of the base-most ancestor runs;        *)
(*   "def"     Template.get_def("probe").render...: _render_context links the chain of `top` in exactly the same  *)
(*             way and then runs that def of `top` in the context of `top` (self = top, local = top, parent = the *)
(*             template below, no next); no body runs.                                                            *)
Entries(fam, N) == IF fam = "entry" THEN (1..N) \X {"render", "def"} ELSE {<<N, "render">>}
Configs ==
  UNION {UNION {UNION {
     {[fam |-> fam, N |-> N, ch |-> ch, mode |-> mode, k |-> ks[1], sw |-> ks[2], pa |-> (fam = "args"), top |-> en[1], entry |-> en[2]] :
        ks \in (IF fam = "dyn" THEN {z \in (1..N) \X {"p1", "p2", "none"} : ~(z[1] = 1 /\ z[2] = "p1")} ELSE {<<0, "p1">>}),
        en \in Entries(fam, N)}
     : ch \in [1..N -> Choices(fam)], mode \in Modes(fam)} : N \in 1..MaxN[fam]} : fam \in Families \ {"dirs"}}
  (* family "dirs": every level in a directory of its own choice (the alternative base at the root), every inherit target    *)
  (* spelled abs / rel / dotrel, static or (level 2) as the value of an expression                                            *)
  \cup UNION {
     {[fam |-> "dirs", N |-> N, ch |-> [i \in 1..N |-> [f |-> TRUE, a |-> "truthy", b |-> FALSE, c |-> "none"]], mode |-> "next",
       k |-> k, sw |-> "p1", pa |-> FALSE, top |-> N, entry |-> "render",
       dirs |-> [i \in 1..(N + 1) |-> IF i = N + 1 THEN 1 ELSE d[i]],
       spell |-> [i \in 1..(N + 1) |-> IF i = N + 1 THEN "abs" ELSE sp[i]]] :
        d \in [1..N -> 1..Len(ChainDirs)], sp \in {q \in [1..N -> {"abs", "rel", "dotrel"}] : q[1] = "abs"}, k \in {0, 2}}
     : N \in 2..MaxN["dirs"]}

Blank == [self |-> NONE, local |-> NONE, next |-> NONE, parent |-> NONE]
InitWith(c) ==
  /\ cfg = c /\ phase = "start" /\ cur = NONE
  /\ inh = [i \in 1..(c.N + 1) |-> NONE] /\ ctx = [i \in 1..(c.N + 1) |-> Blank]
  /\ memo = {} /\ stack = <<>> /\ out = <<>> /\ hist = <<>>
Init == \E c \in Configs : InitWith(c)

(* ------------------------------------------------------------------ linking, as the runtime does it *)
(* _render_context -> _populate_self_namespace(context, template N) *)
PopulateSelf ==
  /\ phase = "start"
  /\ ctx' = [ctx EXCEPT ![cfg.top] = [Blank EXCEPT !.self = cfg.top, !.local = cfg.top]]
  /\ cur' = cfg.top /\ phase' = "link"
  /\ UNCHANGED <<cfg, inh, memo, stack, out, hist>>
RECURSIVE EndOf(_)
EndOf(n) == IF inh[n] = NONE THEN n ELSE EndOf(inh[n])
(* _mako_inherit of `cur` -> _inherit_from(context of cur, target) *)
InheritFrom ==
  /\ phase = "link" /\ Target(cur) # NONE
  /\ LET j == Target(cur)
         ih == EndOf(ctx[cur].self)                      \* while ih.inherits is not None
         lcl == [ctx[cur] EXCEPT !.next = ih]             \* context._locals({"next": ih}): copy *before* parent is set
     IN /\ inh' = [inh EXCEPT ![ih] = j]                  \* ih.inherits = TemplateNamespace(...)
        /\ ctx' = [ctx EXCEPT ![cur].parent = j,          \* context._data["parent"] = ...
                              ![j] = [lcl EXCEPT !.local = j]]  \* = lclcontext._data["local"] = ih.inherits
        /\ cur' = j
  /\ UNCHANGED <<cfg, phase, memo, stack, out, hist>>
(* no further <%inherit>: (template.callable_, lclcontext) is returned and executed *)
RunBodyOfBase ==
  /\ phase = "link" /\ Target(cur) = NONE /\ cfg.entry = "render"
  /\ phase' = "run" /\ stack' = <<[tpl |-> cur, kind |-> "body", pc |-> 1, x |-> -1]>>
  /\ UNCHANGED <<cfg, cur, inh, ctx, memo, out, hist>>
(* DefTemplate branch of _render_context: the chain has been linked; the requested def of `top` runs in top's context *)
RunDefOfTop ==
  /\ phase = "link" /\ Target(cur) = NONE /\ cfg.entry = "def"
  /\ phase' = "run" /\ stack' = <<[tpl |-> cfg.top, kind |-> "probe", pc |-> 1, x |-> 0]>>
  /\ UNCHANGED <<cfg, cur, inh, ctx, memo, out, hist>>

(* ------------------------------------------------------------------ member resolution *)
Declares(i, name) ==
  CASE name = "f" -> T(i).f [] name = "b" -> T(i).b [] name = "c" -> T(i).c # "none"
    [] name = "a" -> T(i).a # "none" [] name = "body" -> TRUE [] OTHER -> FALSE
RECURSIVE NsLookup(_, _)
NsLookup(n, name) == IF n = NONE THEN NONE ELSE IF Declares(n, name) THEN n ELSE NsLookup(inh[n], name)
RECURSIVE NsPath(_, _)
NsPath(n, name) == IF n = NONE \/ Declares(n, name) THEN {n} \ {NONE} ELSE {n} \cup NsPath(inh[n], name)
(* __getattr__ is only reached when setattr has not memoised the member on that namespace yet *)
MLookup(n, name) ==
  IF \E m \in memo : m.ns = n /\ m.name = name
  THEN (CHOOSE m \in memo : m.ns = n /\ m.name = name).got
  ELSE NsLookup(n, name)
Memoise(n, name) ==
  LET r == MLookup(n, name) IN
  IF r = NONE \/ n = NONE \/ (\E m \in memo : m.ns = n /\ m.name = name) THEN memo
  ELSE memo \cup {[ns |-> p, name |-> name, got |-> r] : p \in NsPath(n, name)}

(* ------------------------------------------------------------------ interpreting the scripts *)
Top == stack[Len(stack)]
Script(fr) == ScriptOf(fr.tpl, fr.kind)
Adv == [stack EXCEPT ![Len(stack)].pc = Top.pc + 1]
Push(fr) == Append(Adv, fr)
Ev(via, from, name, got) == [via |-> via, from |-> from, name |-> name, got |-> got]
(* the value of attribute a as defined by template r: (level, truthiness) -- printed as val||level|1 or val||level|0 *)
Truthy(r) == IF r # NONE /\ T(r).a = "truthy" THEN 1 ELSE 0
Step ==
  /\ phase = "run" /\ stack # <<>>
  /\ LET fr == Top  i == fr.tpl  c == ctx[i] IN
     IF fr.pc > Len(Script(fr))
     THEN /\ stack' = SubSeq(stack, 1, Len(stack) - 1) /\ UNCHANGED <<out, hist, memo>>
     ELSE LET o == Script(fr)[fr.pc] IN
       CASE o.op = "open" -> /\ out' = Append(out, Tok("open", "", i, fr.x)) /\ stack' = Adv /\ UNCHANGED <<hist, memo>>
         [] o.op = "close" -> /\ out' = Append(out, Tok("close", "", i, 0)) /\ stack' = Adv /\ UNCHANGED <<hist, memo>>
         [] o.op = "anon" -> /\ out' = Append(out, Tok("anon", "", i, 0)) /\ stack' = Adv
                             /\ hist' = Append(hist, Ev("anon", i, "", stack[CHOOSE k \in 1..Len(stack) : stack[k].kind = "body" /\ \A k2 \in (k+1)..Len(stack) : stack[k2].kind # "body"].tpl))
                             /\ UNCHANGED memo
         [] o.op = "emit" -> /\ out' = Append(out, Tok(o.via, o.name, i, 0)) /\ stack' = Adv /\ UNCHANGED <<hist, memo>>
         [] o.op = "call" ->     \* ${ns.name()}: a missing namespace or member raises; the guard prints ERR
              LET t == c[o.via]  r == MLookup(t, o.name) IN
              /\ hist' = Append(hist, Ev(o.via, i, o.name, r))
              /\ memo' = Memoise(t, o.name)
              /\ IF r = NONE
                 THEN /\ out' = out \o <<Tok("call", o.via \o "." \o o.name, i, 0), Tok("ERR", "", 0, 0)>> /\ stack' = Adv
                 ELSE /\ out' = Append(out, Tok("call", o.via \o "." \o o.name, i, 0))
                      /\ stack' = Push([tpl |-> r, kind |-> o.name, pc |-> 1, x |-> 0])
         [] o.op = "attr" ->     \* ${ns.attr.a}: _NSAttr walks module, then inherits; no memo
              LET t == c[o.via]  r == NsLookup(t, o.name) IN
              /\ hist' = Append(hist, Ev(o.via, i, o.name, r))
              /\ out' = out \o <<Tok("attr", o.via, i, 0), IF r = NONE THEN Tok("ERR", "", 0, 0) ELSE Tok("val", "", r, Truthy(r))>>
              /\ stack' = Adv /\ UNCHANGED memo
         [] o.op = "here" ->     \* <%block name=...> at this position (codegen.visitBlockTag)
              IF c.parent = NONE \/ MLookup(c.parent, o.name) = NONE
              THEN LET r == MLookup(c.self, o.name) IN
                   /\ hist' = Append(hist, Ev("here", i, o.name, r))
                   /\ memo' = Memoise(c.self, o.name)       \* (a failing hasattr memoises nothing)
                   /\ out' = out
                   /\ stack' = Push([tpl |-> r, kind |-> o.name, pc |-> 1, x |-> 0])
              ELSE /\ memo' = Memoise(c.parent, o.name) /\ stack' = Adv /\ UNCHANGED <<out, hist>>
         [] o.op = "body" ->     \* ${next.body(x=..)} / ${self.body(x=..)}
              LET t == c[o.via]  v == IF cfg.pa THEN 10 * i + 1 ELSE -1 IN
              /\ hist' = Append(hist, Ev("body:" \o o.via, i, "body", t))
              /\ memo' = Memoise(t, "body")
              /\ IF t = NONE
                 THEN /\ out' = out \o <<Tok("call", o.via \o ".body", i, v), Tok("ERR", "", 0, 0)>> /\ stack' = Adv
                 ELSE /\ out' = Append(out, Tok("call", o.via \o ".body", i, v))
                      /\ stack' = Push([tpl |-> t, kind |-> "body", pc |-> 1, x |-> v])
  /\ UNCHANGED <<cfg, phase, cur, inh, ctx>>
Finish == /\ phase = "run" /\ stack = <<>> /\ phase' = "done"
          /\ UNCHANGED <<cfg, cur, inh, ctx, memo, stack, out, hist>>
Next == PopulateSelf \/ InheritFrom \/ RunBodyOfBase \/ RunDefOfTop \/ Step \/ Finish
Spec == Init /\ [][Next]_vars

(* ------------------------------------------------------------------ the property, over the chain as configured *)
RECURSIVE ChainTo(_)
ChainTo(i) == IF Target(i) = NONE THEN <<i>> ELSE Append(ChainTo(Target(i)), i)
Chain == ChainTo(cfg.top)                                   \* base-most first
Pos(i) == CHOOSE p \in 1..Len(Chain) : Chain[p] = i
InChain(i) == \E p \in 1..Len(Chain) : Chain[p] = i
(* the definition an adjacent-or-own template at position p answers with: own, else nearest toward the base *)
NearestFrom(p, name) ==
  IF \E q \in 1..p : Declares(Chain[q], name)
  THEN Chain[CHOOSE q \in 1..p : Declares(Chain[q], name) /\ \A q2 \in (q+1)..p : ~Declares(Chain[q2], name)]
  ELSE NONE
Linked == phase \in {"run", "done"}
H == {hist[k] : k \in 1..Len(hist)}
SelfMostDerived_ ==
  /\ Linked => \A i \in Ids : InChain(i) => ctx[i].self = cfg.top
  /\ \A e \in H : e.via = "self" => e.got = NearestFrom(Len(Chain), e.name)
NextParentAdjacent_ ==
  /\ Linked => \A p \in 1..Len(Chain) :
        /\ ctx[Chain[p]].next = (IF p < Len(Chain) THEN Chain[p + 1] ELSE NONE)
        /\ ctx[Chain[p]].parent = (IF p > 1 THEN Chain[p - 1] ELSE NONE)
        /\ inh[Chain[p]] = (IF p > 1 THEN Chain[p - 1] ELSE NONE)
  /\ \A e \in H : /\ (e.via = "next" /\ Pos(e.from) < Len(Chain)) => e.got = NearestFrom(Pos(e.from) + 1, e.name)
                  /\ (e.via = "parent" /\ Pos(e.from) > 1) => e.got = NearestFrom(Pos(e.from) - 1, e.name)
                  /\ (e.via = "next" /\ Pos(e.from) = Len(Chain)) => e.got = NONE        \* nothing is derived from the template the request was made on
                  /\ (e.via = "parent" /\ Pos(e.from) = 1) => e.got = NONE
LocalIsOwn_ ==
  /\ Linked => \A i \in Ids : InChain(i) => ctx[i].local = i
  /\ \A e \in H : e.via = "local" => e.got = NearestFrom(Pos(e.from), e.name)
(* stated on the VALUE that is printed: the attr token of template i via `via` is followed by the value (level, truthiness) *)
(* defined by the template that must answer -- a falsy value is a definition like any other                              *)
AttrAnswer(via, i) ==
  CASE via = "self" -> NearestFrom(Len(Chain), "a")
    [] via = "local" -> NearestFrom(Pos(i), "a")
    [] via = "next" -> IF Pos(i) < Len(Chain) THEN NearestFrom(Pos(i) + 1, "a") ELSE NONE
    [] via = "parent" -> IF Pos(i) > 1 THEN NearestFrom(Pos(i) - 1, "a") ELSE NONE
AttrValues_ ==
  \A k \in 1..Len(out) : (out[k].k = "attr" /\ InChain(out[k].l)) =>
     LET r == AttrAnswer(out[k].n, out[k].l) IN
     out[k + 1] = (IF r = NONE THEN Tok("ERR", "", 0, 0) ELSE Tok("val", "", r, IF T(r).a = "truthy" THEN 1 ELSE 0))
(* the chain is the one the AUTHOR wrote: each target, resolved against the uri of the template that writes it, is the   *)
(* template it was meant to be (so Chain, built from Target, is the written chain whatever the directories and spellings) *)
InheritRelativeToWriter_ == UsesDirs => \A i \in Ids : Resolved(i) = Written(i)
BaseBodyRuns_ ==
  /\ (Linked /\ out # <<>> /\ cfg.entry = "render") => out[1] = Tok("open", "", Chain[1], -1)
  /\ cfg.entry = "def" => /\ \A k \in 1..Len(out) : out[k].k # "open"                       \* get_def: no body runs at all,
                          /\ out # <<>> => out[1] = Tok("probe", "", cfg.top, 0)             \* the def of the requested template does
MemoSound_ == \A m \in memo : NsLookup(m.ns, m.name) = m.got
(* named blocks *)
BlockNames == {"b", "c"}
Declaring(name) == {p \in 1..Len(Chain) : Declares(Chain[p], name)}
BaseMost(name) == Chain[CHOOSE p \in Declaring(name) : \A q \in Declaring(name) : p <= q]
HereEvents(name) == {k \in 1..Len(hist) : hist[k].via = "here" /\ hist[k].name = name}
NBodyRuns(i) == Cardinality({k \in 1..Len(out) : out[k].k = "open" /\ out[k].l = i})
TopLevelHere(i, name) == \E k \in 1..Len(ScriptOf(i, "body")) : ScriptOf(i, "body")[k].op = "here" /\ ScriptOf(i, "body")[k].name = name
BlockOnce_ ==
  \A name \in BlockNames :
    /\ \A k \in HereEvents(name) : /\ hist[k].from = BaseMost(name)              \* only at its position in the base-most declaring template
                                  /\ hist[k].got = NearestFrom(Len(Chain), name)  \* with the most-derived definition
    /\ (phase = "done" /\ Declaring(name) # {} /\ TopLevelHere(BaseMost(name), name))
          => Cardinality(HereEvents(name)) = NBodyRuns(BaseMost(name))           \* once per run of that body
    /\ (phase = "done" /\ cfg.fam \in Families) => Cardinality(HereEvents(name)) <= 1
AnonInPlace_ ==
  /\ \A e \in H : e.via = "anon" => e.got = e.from       \* rendered by the body it is written in
  /\ phase = "done" => \A i \in Ids :
        Cardinality({k \in 1..Len(out) : out[k].k = "anon" /\ out[k].l = i})
          = NBodyRuns(i) * Cardinality({k \in 1..Len(ScriptOf(i, "body")) : ScriptOf(i, "body")[k].op = "anon"})
BodyArgs_ ==
  \A k \in 1..Len(out) :
    (out[k].k = "call" /\ out[k].n \in {"next.body", "self.body"} /\ k < Len(out) /\ out[k + 1].k # "ERR") =>
       /\ out[k + 1].k = "open" /\ out[k + 1].x = out[k].x
       /\ out[k + 1].l = (IF out[k].n = "self.body" THEN Chain[Len(Chain)]
                          ELSE IF Pos(out[k].l) < Len(Chain) THEN Chain[Pos(out[k].l) + 1] ELSE out[k + 1].l)
(* hist, out and memo only ever grow and the links do not change once the body runs, so evaluating the   *)
(* (universally quantified) clauses in the terminal state evaluates them for every prefix.                 *)
AtEnd(P) == phase = "done" => P
SelfMostDerived == AtEnd(SelfMostDerived_)
NextParentAdjacent == AtEnd(NextParentAdjacent_)
LocalIsOwn == AtEnd(LocalIsOwn_)
BaseBodyRuns == AtEnd(BaseBodyRuns_)
InheritRelativeToWriter == AtEnd(InheritRelativeToWriter_)
AttrValues == AtEnd(AttrValues_)
MemoSound == AtEnd(MemoSound_)
BlockOnce == AtEnd(BlockOnce_)
AnonInPlace == AtEnd(AnonInPlace_)
BodyArgs == AtEnd(BodyArgs_)
TypeOK == /\ phase \in {"start", "link", "run", "done"} /\ Len(stack) <= 40 /\ Len(out) <= 2000

(* The compile-time clause (duplicate / misplaced named blocks) is in MC_InheritCompile.tla. *)
=============================================================================
