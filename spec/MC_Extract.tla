----------------------------- MODULE MC_Extract -----------------------------
(* Bounded instance of Extract.tla; the catalog is ExtractCat.tla, which    *)
(* harness/c20.py regenerates for every run; Pre / Last / MaxPre / NLKinds  *)
(* are literal in the generated cfg.                                        *)
EXTENDS Extract
=============================================================================
