--------------------------------- MODULE Warn ---------------------------------
(***************************************************************************)
(* The flow of one compile-time / module-level warning of a template       *)
(* (property C12, second half): mako/template.py _drop_expression_warnings *)
(* and _translate_module_warnings around CPython's warnings filter.        *)
(*                                                                         *)
(* A warning-triggering literal in an expression / control line / <% %>    *)
(* block is met twice: when the fragment is parsed on its own (filename    *)
(* "<unknown>", no usable location) and when the generated module is       *)
(* compiled (filename = module id, line = module line).  A warnings.warn   *)
(* in a <%! %> block occurs once, when the module body runs.  Each         *)
(* occurrence goes through the warnings filter (action always / once /     *)
(* error; `reg` is warnings.onceregistry for this text and category) and,  *)
(* if it is to be shown, through Mako's display hook, which drops          *)
(* "<unknown>" occurrences (and forgets their once-record) and translates  *)
(* module locations through full_line_map (LineMap.tla).                   *)
(*                                                                         *)
(* ShownExactlyOnce: under always and once exactly one line is shown, with *)
(* the template's filename and the home line; under error nothing is shown *)
(* and the construction fails - with a SyntaxException at the home line    *)
(* for a literal, with the warning itself for module-level code.           *)
(* DropForgetsOnce = FALSE (a hook that drops without forgetting) is the   *)
(* design error the comment in _drop_expression_warnings warns about; TLC  *)
(* shows it violates ShownExactlyOnce under "once".                        *)
(***************************************************************************)
EXTENDS Naturals, Sequences, TLC, Json
CONSTANTS Sites,            \* subset of {"literal", "modexec"}
          Actions,          \* subset of {"always", "once", "error"}
          DropForgetsOnce
VARIABLES site, action, stage, reg, shown, exc
vars == <<site, action, stage, reg, shown, exc>>

Init == /\ site \in Sites /\ action \in Actions
        /\ stage = (IF site = "literal" THEN "fragment" ELSE "exec")
        /\ reg = FALSE /\ shown = <<>> /\ exc = "none"

\* the warnings filter: does this occurrence reach showwarning?  (and the once-record)
Passes == action = "always" \/ (action = "once" /\ ~reg)
\* Mako's hook: where an occurrence that reached showwarning is displayed
Fragment ==   \* pyparser.parse of the fragment alone, under _drop_expression_warnings
  /\ stage = "fragment"
  /\ IF action = "error"
     THEN /\ exc' = "SyntaxException@home" /\ stage' = "end" /\ UNCHANGED <<reg, shown>>
     ELSE /\ reg' = (IF action = "once" /\ Passes THEN ~DropForgetsOnce ELSE reg)
          /\ UNCHANGED <<shown, exc>>        \* "<unknown>": dropped by the hook
          /\ stage' = "compile"
  /\ UNCHANGED <<site, action>>
Compile ==    \* compile(source, module_id) under _translate_module_warnings
  /\ stage = "compile"
  /\ IF action = "error" THEN /\ exc' = "raw" /\ UNCHANGED <<reg, shown>>
     ELSE /\ shown' = (IF Passes THEN Append(shown, [file |-> "template", line |-> "home"]) ELSE shown)
          /\ reg' = (reg \/ action = "once") /\ UNCHANGED exc
  /\ stage' = "end" /\ UNCHANGED <<site, action>>
Exec ==       \* exec of the module body (a <%! %> block calling warnings.warn)
  /\ stage = "exec"
  /\ IF action = "error" THEN /\ exc' = "warning-itself" /\ UNCHANGED <<reg, shown>>
     ELSE /\ shown' = (IF Passes THEN Append(shown, [file |-> "template", line |-> "home"]) ELSE shown)
          /\ reg' = (reg \/ action = "once") /\ UNCHANGED exc
  /\ stage' = "end" /\ UNCHANGED <<site, action>>
Emit == /\ stage = "end" /\ PrintT(ToJson([site |-> site, action |-> action, shown |-> shown, exc |-> exc]))
        /\ stage' = "printed" /\ UNCHANGED <<site, action, reg, shown, exc>>
Next == Fragment \/ Compile \/ Exec \/ Emit
Spec == Init /\ [][Next]_vars

ShownExactlyOnce ==
  stage \in {"end", "printed"} =>
     IF action = "error"
     THEN shown = <<>> /\ exc = (IF site = "literal" THEN "SyntaxException@home" ELSE "warning-itself")
     ELSE shown = <<[file |-> "template", line |-> "home"]>> /\ exc = "none"
=============================================================================
