----------------------------- MODULE ModuleFile -----------------------------
(***************************************************************************)
(* Module files on disk (property C15): the staleness test, the write      *)
(* protocol and crashes, for several processes constructing               *)
(*     Template(filename=src, module_directory=dir [, module_writer=w])   *)
(* concurrently.  Mirrors mako/template.py: Template._compile_from_file    *)
(* and _compile_module_file, one action per file-system call:             *)
(*   CheckDir  os.path.exists(dirname(path))   (util.verify_directory)    *)
(*   MkDir     os.makedirs(dirname(path)); an error (somebody else made   *)
(*             it meanwhile) is swallowed and the loop re-checks          *)
(*   StatSrc   os.stat(filename)[ST_MTIME]                                *)
(*   Exists    os.path.exists(path)                                       *)
(*   StatMod   os.stat(path)[ST_MTIME] < filemtime                        *)
(*   ReadSrc   util.read_file(filename)  (+ compile, in memory)           *)
(*   Mkstemp   tempfile.mkstemp(dir=dirname(path))                        *)
(*   Write     os.write(fd, source)      (may be cut short by a crash)    *)
(*   Close     os.close(fd)                                               *)
(*   Move      shutil.move(tmp, path)    (atomic rename)                  *)
(*   CallWriter module_writer(source, path) instead of Mkstemp..Move      *)
(*   Load      compat.load_module(path); magic-number test                *)
(* A process may die at any label (Crash); nothing is cleaned up then.     *)
(* A writing call may also FAIL (Fail: OSError, the process lives on and   *)
(* the constructor raises).                                                *)
(* History steps (modify the source with a newer / equal / older mtime,    *)
(* tick, delete the module file, replace it by one of another generator    *)
(* version) happen only while no construction is running.                  *)
(***************************************************************************)
EXTENDS Naturals, Sequences, FiniteSets, TLC
CONSTANTS Procs,       \* process ids
          MaxVer, MaxNow,   \* model bounds
          Magic,       \* codegen.MAGIC_NUMBER of this generator
          UseWriter,   \* a user module_writer is configured
          Failures     \* writing calls may fail with OSError (off in the largest instances to keep them tractable)
NoMod == [st |-> "absent", from |-> 0, magic |-> 0, mt |-> 0]
NoTmp == [st |-> "none", from |-> 0, bytes |-> 0]
\* locals of a running construction
\*  fmt: source mtime read; data: source version read (0 = none); rewrote: published a module;
\*  loaded: the module record it imported; due0: a (re)write was due when it began; others: another
\*  process published since it began; seen: versions the module path held since it began; wcalls: calls of module_writer
Idle == [fmt |-> 0, data |-> 0, rewrote |-> FALSE, loaded |-> NoMod, due0 |-> FALSE, others |-> FALSE,
         seen |-> {}, wcalls |-> 0, second |-> FALSE]
VARIABLES now, src, mod, tmp, pc, loc, last, dir
vars == <<now, src, mod, tmp, pc, loc, last, dir>>

Due == mod.st = "absent" \/ mod.mt < src.mt \/ mod.magic # Magic
AllIdle == \A p \in Procs : pc[p] = "idle"
Init == /\ now = 1 /\ src = [ver |-> 1, mt |-> 0] /\ mod = NoMod /\ tmp = [p \in Procs |-> NoTmp]
        /\ pc = [p \in Procs |-> "idle"] /\ loc = [p \in Procs |-> Idle] /\ last = [ev |-> "init"]
        /\ dir = FALSE        \* the directory that will hold the module file does not exist yet

(* ---- history steps, only between constructions *)
Modify(m) == /\ AllIdle /\ src.ver < MaxVer /\ m \in 0..now
             /\ src' = [ver |-> src.ver + 1, mt |-> m] /\ last' = [ev |-> "modify", mt |-> m]
             /\ UNCHANGED <<now, mod, tmp, pc, loc, dir>>
Tick == /\ AllIdle /\ now < MaxNow /\ now' = now + 1 /\ last' = [ev |-> "tick"] /\ UNCHANGED <<src, mod, tmp, pc, loc, dir>>
DeleteMod == /\ AllIdle /\ mod.st # "absent" /\ mod' = NoMod /\ last' = [ev |-> "delmod"] /\ UNCHANGED <<now, src, tmp, pc, loc, dir>>
\* the module file is replaced by one written by another generator version -- an older one (newer = FALSE) or
\* a newer one (a module directory shared between two installations, or a downgrade)
OtherGen(newer) ==
          /\ AllIdle /\ mod.st = "complete" /\ mod.magic = Magic
          /\ mod' = [mod EXCEPT !.magic = IF newer THEN Magic + 1 ELSE Magic - 1]
          /\ last' = [ev |-> "oldgen", newer |-> newer] /\ UNCHANGED <<now, src, tmp, pc, loc, dir>>
OldGen == OtherGen(FALSE) \/ OtherGen(TRUE)

(* ---- one construction by process p *)
Go(p, p2, l2, ev) == /\ pc' = [pc EXCEPT ![p] = p2] /\ loc' = [loc EXCEPT ![p] = l2] /\ last' = ev @@ [p |-> p]
Begin(p) == /\ pc[p] = "idle"
            /\ Go(p, "CheckDir", [Idle EXCEPT !.due0 = Due, !.seen = IF mod.st = "absent" THEN {} ELSE {mod.from}], [ev |-> "begin"])
            /\ UNCHANGED <<now, src, mod, tmp, dir>>
\* util.verify_directory: while not exists(dir): try makedirs(dir) except: pass (up to 5 tries)
CheckDir(p) == /\ pc[p] = "CheckDir"
               /\ Go(p, IF dir THEN "StatSrc" ELSE "MkDir", loc[p], [ev |-> "direxists", r |-> dir])
               /\ UNCHANGED <<now, src, mod, tmp, dir>>
MkDir(p)   == /\ pc[p] = "MkDir"
              /\ Go(p, "CheckDir", loc[p], [ev |-> "mkdir", created |-> ~dir])     \* already there: the error is swallowed
              /\ dir' = TRUE /\ UNCHANGED <<now, src, mod, tmp>>
StatSrc(p) == /\ pc[p] = "StatSrc" /\ Go(p, "Exists", [loc[p] EXCEPT !.fmt = src.mt], [ev |-> "statsrc", mt |-> src.mt])
              /\ UNCHANGED <<now, src, mod, tmp, dir>>
Exists(p)  == /\ pc[p] = "Exists"
              /\ IF mod.st = "absent" THEN Go(p, "ReadSrc", loc[p], [ev |-> "exists", r |-> FALSE])
                 ELSE Go(p, "StatMod", loc[p], [ev |-> "exists", r |-> TRUE])
              /\ UNCHANGED <<now, src, mod, tmp, dir>>
\* the module may have vanished only through DeleteMod, which needs all processes idle: StatMod always finds it
StatMod(p) == /\ pc[p] = "StatMod" /\ mod.st # "absent"
              /\ IF mod.mt < loc[p].fmt THEN Go(p, "ReadSrc", loc[p], [ev |-> "statmod", stale |-> TRUE])
                 ELSE Go(p, "Load", loc[p], [ev |-> "statmod", stale |-> FALSE])
              /\ UNCHANGED <<now, src, mod, tmp, dir>>
\* (the trace specification accepts the read from any probing label: which probes are made, and in which
\* order, is not part of the property -- whether the decision was right is judged at Done)
Probing == {"StatSrc", "Exists", "StatMod"}
ReadSrcFrom(p, labels) ==
              /\ pc[p] \in labels
              /\ Go(p, IF UseWriter THEN "CallWriter" ELSE "Mkstemp", [loc[p] EXCEPT !.data = src.ver], [ev |-> "readsrc", ver |-> src.ver])
              /\ UNCHANGED <<now, src, mod, tmp, dir>>
ReadSrc(p) == ReadSrcFrom(p, {"ReadSrc"})
Mkstemp(p) == /\ pc[p] = "Mkstemp" /\ tmp' = [tmp EXCEPT ![p] = [st |-> "open", from |-> loc[p].data, bytes |-> 0]]
              /\ Go(p, "Write", loc[p], [ev |-> "mkstemp"]) /\ UNCHANGED <<now, src, mod, dir>>
Write(p)   == /\ pc[p] = "Write" /\ tmp' = [tmp EXCEPT ![p].bytes = 2]
              /\ Go(p, "Close", loc[p], [ev |-> "write"]) /\ UNCHANGED <<now, src, mod, dir>>
Close(p)   == /\ pc[p] = "Close" /\ tmp' = [tmp EXCEPT ![p].st = "closed"]
              /\ Go(p, "Move", loc[p], [ev |-> "close"]) /\ UNCHANGED <<now, src, mod, dir>>
\* everybody else that is in the middle of a construction notices (ghost) that the module was replaced
Published(p, v) == [q \in Procs |-> IF q = p THEN [loc[p] EXCEPT !.rewrote = TRUE, !.seen = @ \cup {v}]
                                    ELSE IF pc[q] # "idle" THEN [loc[q] EXCEPT !.others = TRUE, !.seen = @ \cup {v}] ELSE loc[q]]
\* (label, written): the trace specification also accepts a rename issued from an earlier label when the
\* temp file is observed to hold the complete module (writes made through a buffered file object are
\* not separate steps there); in the design model label = "Move" and the file must have been written.
MoveFrom(p, label, written) ==
              /\ pc[p] = label /\ tmp[p].st # "none" /\ (tmp[p].bytes = 2 \/ written)
              /\ mod' = [st |-> "complete", from |-> tmp[p].from, magic |-> Magic, mt |-> now]
              /\ tmp' = [tmp EXCEPT ![p] = NoTmp]
              /\ pc' = [pc EXCEPT ![p] = "Load"] /\ loc' = Published(p, tmp[p].from) /\ last' = [ev |-> "move", p |-> p]
              /\ UNCHANGED <<now, src, dir>>
Move(p)    == MoveFrom(p, "Move", FALSE)
\* a user-supplied module_writer gets (encoded source, destination path); it is the writer's business to
\* be atomic -- modelled as one step
CallWriter(p) == /\ pc[p] = "CallWriter"
                 /\ mod' = [st |-> "complete", from |-> loc[p].data, magic |-> Magic, mt |-> now]
                 /\ pc' = [pc EXCEPT ![p] = "Load"]
                 /\ loc' = [Published(p, loc[p].data) EXCEPT ![p].wcalls = @ + 1]
                 /\ last' = [ev |-> "writer", p |-> p] /\ UNCHANGED <<now, src, tmp, dir>>
LoadFrom(p, labels) ==
              /\ pc[p] \in labels /\ mod.st = "complete"
              /\ IF mod.magic # Magic /\ ~loc[p].second
                 THEN Go(p, "ReadSrc", [loc[p] EXCEPT !.loaded = mod, !.second = TRUE], [ev |-> "load", from |-> mod.from, magic |-> mod.magic])
                 ELSE Go(p, "Done", [loc[p] EXCEPT !.loaded = mod], [ev |-> "load", from |-> mod.from, magic |-> mod.magic])
              /\ UNCHANGED <<now, src, mod, tmp, dir>>
Load(p)    == LoadFrom(p, {"Load"})
\* importing a file that is not a complete module fails: the construction raises
LoadFail(p) == /\ pc[p] = "Load" /\ mod.st # "complete"
               /\ Go(p, "idle", Idle, [ev |-> "exc"]) /\ UNCHANGED <<now, src, mod, tmp, dir>>
Done(p)    == /\ pc[p] = "Done"
              /\ Go(p, "idle", loc[p], [ev |-> "done", rendered |-> loc[p].loaded.from, rewrote |-> loc[p].rewrote])
              /\ UNCHANGED <<now, src, mod, tmp, dir>>
(* ---- the process dies: at any label; inside Write the temp file may hold half of the bytes *)
Crash(p)   == /\ pc[p] # "idle" /\ pc' = [pc EXCEPT ![p] = "idle"] /\ loc' = [loc EXCEPT ![p] = Idle]
              /\ last' = [ev |-> "crash", at |-> pc[p], p |-> p]
              /\ \/ tmp' = tmp
                 \/ pc[p] = "Write" /\ tmp' = [tmp EXCEPT ![p].bytes = 1]       \* died midway through os.write
              /\ UNCHANGED <<now, src, mod, dir>>
(* ---- a writing call FAILS (OSError): the process lives on, the error propagates out of the constructor.  Nothing is
   cleaned up by the code; inside Write half of the bytes may have reached the temp file *)
FailLabels == {"Mkstemp", "Write", "Close", "Move"}
Fail(p)    == /\ Failures /\ pc[p] \in FailLabels
              /\ pc' = [pc EXCEPT ![p] = "Failed"] /\ loc' = loc
              /\ \/ tmp' = tmp /\ last' = [ev |-> "fail", at |-> pc[p], p |-> p, mid |-> FALSE]
                 \/ pc[p] = "Write" /\ tmp' = [tmp EXCEPT ![p].bytes = 1] /\ last' = [ev |-> "fail", at |-> pc[p], p |-> p, mid |-> TRUE]
              /\ UNCHANGED <<now, src, mod, dir>>
Raise(p)   == /\ pc[p] = "Failed" /\ Go(p, "idle", Idle, [ev |-> "failexc"]) /\ UNCHANGED <<now, src, mod, tmp, dir>>
Step(p) == Fail(p) \/ Raise(p) \/ Begin(p) \/ CheckDir(p) \/ MkDir(p) \/ StatSrc(p) \/ Exists(p) \/ StatMod(p) \/ ReadSrc(p) \/ Mkstemp(p) \/ Write(p) \/ Close(p)
           \/ Move(p) \/ CallWriter(p) \/ Load(p) \/ LoadFail(p) \/ Done(p)
Env == Tick \/ DeleteMod \/ OldGen \/ \E m \in 0..MaxNow : Modify(m)
Next == Env \/ \E p \in Procs : Step(p) \/ Crash(p)
Spec == Init /\ [][Next]_vars

(* ---- the property (C15) *)
\* the module path holds no file, or a complete module generated from some version of the source
ModuleIntegrity == mod.st \in {"absent", "complete"}
\* hence importing it never fails, whatever crashed before
LaterLoadSucceeds == \A p \in Procs : pc[p] = "Load" => mod.st = "complete"
NeverRaises == last.ev # "exc"
\* when a construction completes: it rewrote the module if a rewrite was due when it began and nobody else
\* did it meanwhile, and it did not rewrite if none was due
RewriteWhenDue == \A p \in Procs : (pc[p] = "Done" /\ loc[p].due0 /\ ~loc[p].others) => loc[p].rewrote
ReuseOtherwise == \A p \in Procs : (pc[p] = "Done" /\ ~loc[p].due0) => ~loc[p].rewrote
\* after a rewrite, and whenever the file on disk was generated from the current source, the Template
\* renders the current source; in any case it renders a version the module path held during the construction
RendersCurrent == \A p \in Procs : pc[p] = "Done" =>
                     /\ loc[p].loaded.from \in loc[p].seen
                     /\ (loc[p].rewrote \/ loc[p].seen = {src.ver}) => loc[p].loaded.from = src.ver
\* module_writer is called exactly when a (re)write is due: once per rewrite, never otherwise
WriterExactlyWhenDue == UseWriter => \A p \in Procs : pc[p] = "Done" =>
                     /\ loc[p].wcalls = (IF loc[p].rewrote THEN 1 ELSE 0)
\* temp files never carry the module's name: leftovers of crashed writers are harmless (structural: tmp is
\* a separate variable); a published module always has this generator's magic number
PublishedIsCurrentGen == [][mod' # mod /\ mod'.st # "absent" /\ ~AllIdle => (mod'.st = "complete" /\ mod'.magic = Magic /\ mod'.from = src.ver)]_vars
=============================================================================
