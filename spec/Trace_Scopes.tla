---------------------------- MODULE Trace_Scopes ----------------------------
(***************************************************************************)
(* Validates reads recorded from rendered multi-variable templates against *)
(* Scopes.tla (direction V of C04).  A trace is one rendered template; an  *)
(* event is one read {S, r, strict, obs}: the binding sites active for the *)
(* variable read, the read site, and the token the real template saw.  For *)
(* every event the spec's own hop actions are run from the closure hop to  *)
(* the end and the result is compared with the recorded token.  One        *)
(* initial state per trace; one JSON verdict {t, ok, i, clause} per trace. *)
(* ResolveTotalAndOrdered is evaluated in every state of the walk (cfg).   *)
(***************************************************************************)
EXTENDS Scopes, IOUtils
Traces == JsonDeserialize(IOEnv.TRACE_FILE)
VARIABLES tr, l, verdict
tvars == <<vars, tr, l, verdict>>
Ev == Traces[tr].events
ToSet(s) == {s[i] : i \in 1..Len(s)}
Load(e) == /\ S' = ToSet(e.S) /\ r' = e.r /\ strict' = e.strict /\ bclass' = e.bclass /\ msrc' = e.msrc
           /\ pc' = "closure" /\ fi' = 1 /\ res' = "" /\ hops' = <<>>
TInit == /\ tr \in 1..Len(Traces) /\ l = 1 /\ verdict = "run"
         /\ Len(Ev) > 0
         /\ S = ToSet(Ev[1].S) /\ r = Ev[1].r /\ strict = Ev[1].strict /\ bclass = Ev[1].bclass /\ msrc = Ev[1].msrc
         /\ pc = "closure" /\ fi = 1 /\ res = "" /\ hops = <<>>
Report(ok, i, clause) == PrintT(ToJson([t |-> Traces[tr].id, ok |-> ok, i |-> i, clause |-> clause]))
THop == /\ verdict = "run" /\ pc # "done"
        /\ (HopClosure \/ HopModule \/ HopImport \/ HopContext \/ HopBuiltin \/ HopUndefined)
        /\ UNCHANGED <<tr, l, verdict>>
TCompare ==
  /\ verdict = "run" /\ pc = "done" /\ UNCHANGED tr
  /\ IF res # Ev[l].obs
     THEN /\ verdict' = "fail" /\ Report(FALSE, l, "spec:" \o res) /\ UNCHANGED <<vars, l>>
     ELSE IF l = Len(Ev)
          THEN /\ verdict' = "ok" /\ Report(TRUE, l, "") /\ UNCHANGED <<vars, l>>
          ELSE /\ l' = l + 1 /\ Load(Ev[l + 1]) /\ UNCHANGED verdict
TNext == THop \/ TCompare
TSpec == TInit /\ [][TNext]_tvars
=============================================================================
