------------------------------- MODULE LineMap -------------------------------
(***************************************************************************)
(* The generated module's line map (property C12, first half):             *)
(* mako/pygen.py PythonPrinter lineno / source_map accounting              *)
(* (start_source, writeline, write_indented_block, write_blanks), the      *)
(* sentinel entry of codegen.write_metadata_struct, and full_line_map as   *)
(* mako/template.py ModuleInfo.get_module_source_metadata builds it.       *)
(*                                                                         *)
(* Templates are built exactly as in Lines.tla (same catalog, same build   *)
(* actions).  Every catalog entry carries `ev`, the visits the code        *)
(* generator makes for it in emission order (measured from the entry's     *)
(* parse tree: node kind, line offset `off` of the node inside the entry,  *)
(* `n` lines of a <% %> block, `fn` = 0 for the body of the template or    *)
(* the number of the def/block function the visit is emitted into).        *)
(* What each visit makes the printer do is stated here, in the shape of    *)
(* mako/codegen.py (visitText, visitExpression, visitControlLine,          *)
(* visitCode, visitIncludeTag, visitBlockTag, visitCallTag,                *)
(* write_render_callable, mangle_mako_loop for a % for that uses `loop`):  *)
(*   SS(l)  start_source(l): source_map[lineno] = l unless already set     *)
(*   W(k)   k physical lines written: lineno += k                          *)
(* `em` records every emitted line that can raise on behalf of a construct *)
(* together with its home: the template line where the construct begins    *)
(* (the exact line inside <% %>).                                          *)
(*                                                                         *)
(* EveryEmittedLineMapsHome: through full_line_map every such line maps to *)
(* its home.  BlockCallStartsSource = TRUE is the intended design; with    *)
(* FALSE the model is the code as it stands (visitBlockTag never calls     *)
(* start_source) and TLC produces the counterexample of finding #7.        *)
(***************************************************************************)
EXTENDS Lines

CONSTANTS Header,                \* lines of module prologue before "def render_body" (any number)
          BlockCallStartsSource  \* does visitBlockTag call start_source(node.lineno)?

VARIABLES pl,     \* PythonPrinter.lineno
          sm,     \* PythonPrinter.source_map: set of <<module line, template line>>
          em,     \* emitted lines that can raise: set of [ml, home]
          q       \* <<pass, entry position, event index>> of the next visit
lmvars == <<vars, pl, sm, em, q>>

Keys(m) == {p[1] : p \in m}
SS(m, at, l) == IF at \in Keys(m) THEN m ELSE m \cup {<<at, l>>}

\* ModuleInfo.get_module_source_metadata(full_line_map=True): value at module line ml
MaxKey(m) == CHOOSE x \in Keys(m) : \A y \in Keys(m) : y <= x
FullMap(m, ml) == LET below == {p \in m : p[1] <= ml} IN
                  IF below = {} THEN 1
                  ELSE (CHOOSE p \in below : \A r \in below : r[1] <= p[1])[2]

\* one visit: returns [pl, sm, em] after it
Visit(e, L, P, M, Em) ==
  LET l == L + e.off IN
  CASE e.k \in {"text"} ->
         [pl |-> P + 1, sm |-> SS(M, P, l), em |-> Em]
    [] e.k \in {"expr", "include", "ctl"} ->            \* start_source; one line that can raise
         [pl |-> P + 1, sm |-> SS(M, P, l), em |-> Em \cup {[ml |-> P, home |-> l]}]
    [] e.k = "ctlend" -> [pl |-> P, sm |-> M, em |-> Em]   \* writeline(None): nothing is written
    [] e.k = "ctlloop" ->     \* a % for whose body uses `loop` (mangle_mako_loop): start_source FIRST, then the
                              \* prologue  loop = __M_loop._enter(<iterable>) / try:  and  for <target> in loop:
                              \* - the iterable is evaluated on the prologue line, which must map home as well
         [pl |-> P + 3, sm |-> SS(M, P, l), em |-> Em \cup {[ml |-> P, home |-> l], [ml |-> P + 2, home |-> l]}]
    [] e.k = "ctlendloop" ->  \* finally: / loop = __M_loop._exit()
         [pl |-> P + 2, sm |-> M, em |-> Em]
    [] e.k \in {"code", "modcode"} ->
         \* write_indented_block(text, starting_lineno): one map entry per line.  "modcode" is a <%! %> block:
         \* write_module_code makes ONE call PER BLOCK, each with its own block's line (a template may hold several
         \* <%! %> blocks with other constructs between them)
         LET RECURSIVE blk(_, _)
             blk(j, m) == IF j = e.n THEN m ELSE blk(j + 1, SS(m, P + j, l + j))
         IN [pl |-> P + e.n, sm |-> blk(0, M),
             em |-> Em \cup {[ml |-> P + j, home |-> l + j] : j \in 0..(e.n - 1)}]
    [] e.k = "blockcall" ->   \* if 'parent' not in ...: / context['self'].b(**pageargs) / "\n"
         LET m1 == IF BlockCallStartsSource THEN SS(M, P, l) ELSE M IN
         [pl |-> P + 4, sm |-> m1, em |-> Em \cup {[ml |-> P, home |-> l], [ml |-> P + 1, home |-> l]}]
    [] e.k = "anoncall" ->    \* __M_anon_N()
         LET m1 == IF BlockCallStartsSource THEN SS(M, P, l) ELSE M IN
         [pl |-> P + 1, sm |-> m1, em |-> Em \cup {[ml |-> P, home |-> l]}]
    [] e.k = "callopen" ->    \* def ccall(caller): / def body():
         [pl |-> P + 2, sm |-> M, em |-> Em]
    [] e.k = "callclose" ->   \* return '' / return [body] / nextcaller = ... / try: / SS / writer / finally: / reset
         [pl |-> P + 7, sm |-> SS(M, P + 4, l), em |-> Em \cup {[ml |-> P + 4, home |-> l]}]
    [] e.k = "fn" ->          \* write_render_callable: start_source(node.lineno); def / push_frame / try:
         [pl |-> P + 3, sm |-> SS(M, P, l), em |-> Em]
    [] e.k = "fnend" ->       \* return '' / finally: / pop_frame, two blank lines
         [pl |-> P + 5, sm |-> M, em |-> Em]
    [] OTHER -> [pl |-> P, sm |-> M, em |-> Em]

LMInit == Init /\ pl = Header + 1 /\ sm = {} /\ em = {} /\ q = <<0, 1, 1>>
Build == /\ phase \in {"build", "tail"}
         /\ \/ \E e \in Good : AddPre(e)
            \/ \E e \in Faulty : Plant(e)
            \/ \E e \in Tails : AddTail(e)
            \/ NoTail
         /\ UNCHANGED <<pl, sm, em, q>>
\* The visits are made function by function, as _GenerateRenderMethod does: pass 1 = render_body
\* (events with fn = 0), pass 2 = the def / block functions (fn > 0), each in document order.
\* pass 0 = the module-level code (events of kind "modcode": every <%! %> block, in document order, written by
\* write_toplevel before any function), then the prologue of render_body
InPass(e, p) == (p = 0 /\ e.k = "modcode") \/ (p = 1 /\ e.fn = 0 /\ e.k # "modcode") \/ (p = 2 /\ e.fn > 0)
Prologue == /\ phase = "lex" /\ q[1] = 0 /\ q[2] > Len(tpl)
            /\ sm' = SS(sm, pl, 0) /\ pl' = pl + 3 /\ q' = <<1, 1, 1>>     \* def render_body / push_frame / try:
            /\ UNCHANGED <<vars, em>>
Emit1 == /\ phase = "lex" /\ q[2] <= Len(tpl)
         /\ LET evs == Cat[tpl[q[2]]].ev IN
            IF q[3] > Len(evs) THEN /\ q' = <<q[1], q[2] + 1, 1>> /\ UNCHANGED <<pl, sm, em>>
            ELSE IF ~InPass(evs[q[3]], q[1]) THEN /\ q' = <<q[1], q[2], q[3] + 1>> /\ UNCHANGED <<pl, sm, em>>
            ELSE LET r == Visit(evs[q[3]], LineOf(tpl, q[2]), pl, sm, em) IN
                 /\ pl' = r.pl /\ sm' = r.sm /\ em' = r.em /\ q' = <<q[1], q[2], q[3] + 1>>
         /\ UNCHANGED vars
\* end of render_body: return '' / finally: / pop_frame, two blank lines; then the functions
NextPass == /\ phase = "lex" /\ q[1] = 1 /\ q[2] > Len(tpl)
            /\ pl' = pl + 5 /\ q' = <<2, 1, 1>> /\ UNCHANGED <<vars, sm, em>>
\* write_metadata_struct: source_map[lineno] = max(source_map)  (the sentinel closing the map)
Metadata == /\ phase = "lex" /\ q[1] = 2 /\ q[2] > Len(tpl)
            /\ sm' = (IF pl \in Keys(sm) THEN sm ELSE sm \cup {<<pl, MaxKey(sm)>>})
            /\ phase' = "done"
            /\ UNCHANGED <<tpl, nlk, fpos, k, lineno, cb, report, route, opt, pl, em, q>>
LMNext == Build \/ Prologue \/ Emit1 \/ NextPass \/ Metadata
LMSpec == LMInit /\ [][LMNext]_lmvars

EveryEmittedLineMapsHome ==
  phase = "done" => \A x \in em : x.ml < MaxKey(sm) /\ FullMap(sm, x.ml) = x.home
\* the raising line of the planted construct is among the emitted lines and its home is the declared frame line
PlantedLineEmitted ==
  phase = "done" => LET d == Declared(tpl, fpos) IN
                    Len(d.frames) > 0 => \E x \in em : x.home = d.frames[Len(d.frames)]
=============================================================================
