---------------------------- MODULE Trace_Containment ----------------------------
(***************************************************************************)
(* Judges requests recorded from a real mako TemplateLookup / Template     *)
(* (harness/c09.py, direction V) against Containment.tla.  One initial     *)
(* state per recorded request; the step machine of Containment.tla is run  *)
(* on the recorded URI and context (actions Request, Adjust, ProbeHit,     *)
(* ProbeNext, ProbeFail, Construct are re-used, not rewritten) and the     *)
(* terminal state is compared with the observation.  Verdicts are total:   *)
(* every terminal state prints one JSON line {t, ok, clause}; where the    *)
(* model allows two outcomes there are two lines and the request is        *)
(* explained if one of them is ok.                                         *)
(* Observation: kind "exc" (TemplateLookupException) / "found" / other;    *)
(* path = the file whose content was served (segment sequence); mods =     *)
(* module files written or loaded; outside = files read outside the roots  *)
(* or created outside module_directory (from the audit hook).              *)
(***************************************************************************)
EXTENDS MC_Containment, IOUtils
Traces == JsonDeserialize(IOEnv.C09_TRACES)
VARIABLE tr
tvars == <<vars, tr>>
Ob == Traces[tr].obs
TInit == /\ tr \in 1..Len(Traces) /\ uri = Traces[tr].uri
         /\ pc = "build" /\ ctx = "none" /\ adj = <<>> /\ di = 0 /\ src = <<>> /\ res = NoRes
Clause ==
  IF Len(Ob.outside) > 0 THEN "touches-file-outside"
  ELSE IF Ob.kind = "exc" THEN (IF res'.kind = "exc" THEN "" ELSE "refuses-inside-file")
  ELSE IF Ob.kind = "found"
       THEN IF ctx \in LookupCtx /\ ~InsideSomeRoot(Ob.path) THEN "serves-outside-file"
            ELSE IF res'.kind # "found" THEN "serves-where-refusal-required"
            ELSE IF Ob.path # res'.path THEN "serves-wrong-file"
            ELSE IF ModOn /\ (\E i \in DOMAIN Ob.mods : ~Beneath(Ob.mods[i], ModRoot.segs)) THEN "module-outside-module-directory"
            ELSE IF ModOn /\ ~res'.silent /\ (\E i \in DOMAIN Ob.mods : Ob.mods[i] # res'.mod) THEN "wrong-module-path"
            ELSE ""
  ELSE "unexpected-exception"
Report == PrintT(ToJson([t |-> Traces[tr].id, ok |-> (Clause = ""), clause |-> Clause]))
TNext == /\ UNCHANGED tr
         /\ \/ Request(Traces[tr].ctx)
            \/ Adjust \/ ProbeHit \/ ProbeNext
            \/ (ProbeFail /\ Report)
            \/ (Construct /\ Report)
TSpec == TInit /\ [][TNext]_tvars
=============================================================================
