------------------------------ MODULE MC_Lines ------------------------------
(* Bounded instance of Lines.tla.  The catalog (measured geometry of the    *)
(* concrete construct texts of this run) is LinesCat.tla, which the harness *)
(* regenerates in the scratch directory of every TLC run; the sets Good /   *)
(* Faulty / Tails and the bounds are literal in the generated cfg.          *)
EXTENDS Lines
=============================================================================
