------------------------ MODULE Trace_RenderShared ------------------------
(***************************************************************************)
(* Validates line-level schedules of real threads rendering generated      *)
(* templates through one bounded TemplateLookup (harness/c16_render.py)    *)
(* against RenderShared.tla.  The page programs (Progs) are the ones the   *)
(* harness concretised into template files; they travel in the trace file. *)
(* Logged events (in execution order, one thread running at a time):       *)
(*   begin  th                      the thread starts get_template+render  *)
(*   mark   th n who depth own      `${mk(n)}` reached: the context value  *)
(*                                  it sees, len(context._buffer_stack),   *)
(*                                  and whether that Context is the one    *)
(*                                  created for this thread's render       *)
(*   memo   th cell key kw          the cache backend was called with kw:  *)
(*                                  what the thread read from the shared   *)
(*                                  Cache._def_regions entry of the def    *)
(*   store_begin / store_end th w n LRUCache.__setitem__ of the collection *)
(*                                  (w = "coll") or the URI cache ("uric") *)
(*                                  entered / left with n entries          *)
(*   get_begin / got th uri ver     a get_template+render of the URI that  *)
(*   put    th uri ver              put_string / put_template race for     *)
(*   end    th out exc              the render returned; out = its tokens, *)
(*                                  exc = "" or what it raised             *)
(*   finish status                  scheduler: all returned / blocked      *)
(* Unlogged private operations between two logged events are replayed by   *)
(* the private semantics Apply of RenderShared (they touch nothing but the *)
(* thread's own buffer stack).  The expected output is computed here from  *)
(* the program (Solo), and must also equal the output the same page gave   *)
(* when rendered alone (header field `solo`).                              *)
(* One initial state per trace, one JSON verdict {t, ok, i, clause}.       *)
(***************************************************************************)
EXTENDS RenderShared, Json, IOUtils, TLCExt
Traces == JsonDeserialize(IOEnv.TRACE_FILE)
TraceProgs == Traces[1].progs
VARIABLES tr, l, verdict, lsize, linside, cur, allowed, obs
tvars == <<vars, tr, l, verdict, lsize, linside, cur, allowed, obs>>
Ev == Traces[tr].events
LRUs == {"coll", "uric"}
\* page and ctx are fixed by the trace BEFORE Init is evaluated (Init then only tests membership instead of enumerating
\* [Threads -> Pages] x [Threads -> CtxVals] for every trace)
TInit == /\ tr \in 1..Len(Traces)
         /\ page = [t \in Threads |-> Traces[tr].page[t]]
         /\ ctx = [t \in Threads |-> Traces[tr].ctx[t]]
         /\ Init
         /\ l = 1 /\ verdict = "run" /\ lsize = [w \in LRUs |-> 0] /\ linside = [w \in LRUs |-> {}]
         /\ cur = 0 /\ allowed = [t \in Threads |-> {}] /\ obs = {}
Report(ok, i, clause) == PrintT(ToJson([t |-> Traces[tr].id, ok |-> ok, i |-> i, clause |-> clause, obs |-> obs']))
InvClause == IF ~RenderIsolation' THEN "inv:RenderIsolation"
             ELSE IF ~BoundUnderConcurrency' THEN "inv:BoundUnderConcurrency"
             ELSE IF Cap > 0 /\ linside'["uric"] = {} /\ lsize'["uric"] > Bound THEN "inv:BoundUnderConcurrency:uri-cache"
             ELSE ""
Finish(c0) == LET c == IF c0 # "" THEN c0 ELSE InvClause IN
   /\ l' = l + 1
   /\ verdict' = (IF c # "" THEN "fail" ELSE IF l + 1 > Len(Ev) THEN "ok" ELSE "run")
   /\ (c # "" => Report(FALSE, l, c))
   /\ ((c = "" /\ l + 1 > Len(Ev)) => Report(TRUE, l, ""))
\* position of the next mark operation of thread t at or after its ip (Len+1 if none)
RECURSIVE NextMark(_, _)
NextMark(prog, i) == IF i > Len(prog) THEN i ELSE IF prog[i].op = "mark" THEN i ELSE NextMark(prog, i + 1)
\* the cache_* arguments the page's cached def declares (they travel in the program's `shared cache` operation)
CacheOps(p) == SelectSeq(Progs[p], LAMBDA o : o.op = "shared" /\ o.c = "cache")
CacheKw(p) == IF Len(CacheOps(p)) = 0 THEN <<>> ELSE CacheOps(p)[1].kw
SameShared == size' = lsize'["coll"] /\ inside' = linside'["coll"] /\ UNCHANGED <<page, ctx, phase, cell>>
NoLru == UNCHANGED <<lsize, linside>>
\* put_string / put_template racing with get_template of one URI: `cur` is the version the last completed put (or the file, 0)
\* installed; allowed[t] are the versions that were current at some moment of thread t's pending get_template call.  C16 does
\* not list put_string / put_template among its operations, so a call serving another version is NOT a rejection: it is
\* recorded in `obs` (reported as an observation outside the property) and validation goes on -- exceptions, blocked
\* threads, the context value and the size bound of such executions are judged as everywhere else
NoPut == UNCHANGED <<cur, allowed, obs>>
TStep ==
  /\ verdict = "run" /\ l <= Len(Ev) /\ UNCHANGED tr
  /\ LET e == Ev[l]  t == e.th IN
     \/ /\ e.ev = "begin" /\ Begin(t) /\ NoLru /\ NoPut /\ Finish("")
     \/ /\ e.ev = "mark" /\ ip[t] >= 1 /\ ip[t] <= Len(Prog(t)) + 1
        /\ LET j == NextMark(Prog(t), ip[t])
               b == RunRange(Prog(t), ip[t], IF j > Len(Prog(t)) THEN Len(Prog(t)) ELSE j, buf[t], ctx[t]) IN
           /\ ip' = [ip EXCEPT ![t] = j + 1] /\ buf' = [buf EXCEPT ![t] = b] /\ UNCHANGED out
           /\ NoLru /\ NoPut /\ SameShared
           /\ Finish(IF j > Len(Prog(t)) \/ Prog(t)[j].n # e.n THEN "mark-order"
                     ELSE IF e.who # ctx[t] THEN "PrivateContext:value"
                     ELSE IF ~e.own THEN "PrivateContext:identity"
                     ELSE IF e.depth # Len(b) THEN "PrivateStacks:depth"
                     ELSE "")
     \/ /\ e.ev = "end" /\ ip[t] >= 1 /\ ip[t] <= Len(Prog(t)) + 1
        /\ LET b == RunRange(Prog(t), ip[t], Len(Prog(t)), buf[t], ctx[t]) IN
           /\ ip' = [ip EXCEPT ![t] = Len(Prog(t)) + 2] /\ buf' = [buf EXCEPT ![t] = b]
           /\ out' = [out EXCEPT ![t] = e.out]          \* the observed output; RenderIsolation' compares it with Solo
           /\ NoLru /\ NoPut /\ SameShared
           /\ Finish(IF e.exc # "" THEN "OnlyDocumentedExceptions"       \* a render raised; e.exc = Type@module.function
                     ELSE IF NextMark(Prog(t), ip[t]) <= Len(Prog(t)) THEN "end-before-last-mark"
                     ELSE IF Len(b) # 1 THEN "PrivateStacks:unbalanced"
                     ELSE IF Solo(page[t], ctx[t]) # Traces[tr].solo[t] THEN "solo-output-differs-from-program-meaning"
                     ELSE "")
     \/ /\ e.ev = "memo" /\ UNCHANGED <<ip, buf, out>> /\ NoLru /\ NoPut /\ SameShared       \* what thread t read from a shared memo cell
        /\ Finish(IF ToSet(e.kw) = ToSet(CacheKw(page[t])) THEN "" ELSE "MemoCompleteWhenVisible:def_regions")
     \/ /\ e.ev = "store_begin" /\ linside' = [linside EXCEPT ![e.w] = @ \cup {t}] /\ UNCHANGED lsize /\ NoPut
        /\ UNCHANGED <<ip, buf, out>> /\ SameShared /\ Finish("")
     \/ /\ e.ev = "store_end" /\ linside' = [linside EXCEPT ![e.w] = @ \ {t}] /\ lsize' = [lsize EXCEPT ![e.w] = e.n] /\ NoPut
        /\ UNCHANGED <<ip, buf, out>> /\ SameShared /\ Finish("")
     \/ /\ e.ev = "get_begin" /\ UNCHANGED vars /\ NoLru /\ UNCHANGED <<cur, obs>>
        /\ allowed' = [allowed EXCEPT ![t] = {cur}] /\ Finish("")
     \/ /\ e.ev = "put" /\ UNCHANGED vars /\ NoLru /\ UNCHANGED obs /\ cur' = e.ver
        /\ allowed' = [x \in Threads |-> IF allowed[x] = {} THEN {} ELSE allowed[x] \cup {e.ver}] /\ Finish("")
     \/ /\ e.ev = "got" /\ UNCHANGED vars /\ NoLru /\ UNCHANGED cur
        /\ allowed' = [allowed EXCEPT ![t] = {}]
        /\ obs' = (IF e.ver \in allowed[t] THEN obs
                   ELSE obs \cup {IF e.ver > cur THEN "put-vs-load:version-not-yet-put" ELSE "put-vs-load:older-than-completed-put"})
        /\ Finish(IF e.who # ctx[t] THEN "PrivateContext:value" ELSE "")
     \/ /\ e.ev = "finish" /\ UNCHANGED vars /\ NoLru /\ NoPut
        /\ Finish(IF e.status # "ok" THEN "NoThreadBlocked"
                  ELSE IF e.mutex # "free" THEN "MutexDiscipline:held-at-end"
                  ELSE IF \E x \in Threads : ~Done(x) THEN "finish-before-all-returned"
                  ELSE IF Cap > 0 /\ (e.coll > Bound \/ e.uric > Bound) THEN "inv:BoundUnderConcurrency:final"
                  ELSE "")
TStuck ==
  /\ verdict = "run" /\ l <= Len(Ev) /\ ~ENABLED TStep
  /\ verdict' = "fail" /\ UNCHANGED <<vars, tr, l, lsize, linside, cur, allowed, obs>> /\ Report(FALSE, l, "not-enabled")
TNext == TStep \/ TStuck
TSpec == TInit /\ [][TNext]_tvars
=============================================================================
