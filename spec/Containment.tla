---------------------------- MODULE Containment ----------------------------
(***************************************************************************)
(* Lookup containment (property C09): no URI -- given to get_template /    *)
(* has_template, or reached through <%include>/<%inherit>/<%namespace      *)
(* file=> / the Namespace API from a calling template -- makes a           *)
(* TemplateLookup return a template whose source lies outside its          *)
(* configured directories, and module files are written only beneath       *)
(* module_directory.                                                       *)
(*                                                                         *)
(* The model is written in the shape of the code, one action per step:     *)
(*   Adjust     mako/lookup.py  TemplateLookup.adjust_uri                  *)
(*   Probe*     mako/lookup.py  TemplateLookup.get_template (the loop over *)
(*              self.directories: map backslashes, strip leading slashes,  *)
(*              posixpath.join, posixpath.normpath, os.path.isfile)        *)
(*   Refuse / Accept / Silent*                                             *)
(*              mako/template.py Template.__init__ (u_norm: map, lstrip,   *)
(*              os.path.normpath, the leading-".." test, module path)      *)
(* The two normalisation pipelines are deliberately written twice, as the  *)
(* two code paths are: containment is enforced by Template.__init__, not   *)
(* by the lookup's own probe, and past CVEs were spellings on which the    *)
(* two disagreed.                                                          *)
(*                                                                         *)
(* Paths.  A raw URI is a sequence of TOKENS: a separator "/" or "\\", or  *)
(* a segment name.  Two segment tokens are never adjacent.  Own path       *)
(* operators (not shared with any other module): Dirname / JoinT on token  *)
(* sequences (= posixpath.dirname / posixpath.join on strings), Split      *)
(* (= str.split("/")), NormComps / NormT (= posixpath.normpath), Unsplit.  *)
(* A normalised path is [abs, segs]; an absolute one is identified with    *)
(* its segment sequence from the file-system root.                         *)
(*                                                                         *)
(* URIs are enumerated by TLC itself: Grow appends one token at a time up  *)
(* to MaxSegs segments, Request starts processing the URI built so far in  *)
(* one context.                                                            *)
(***************************************************************************)
EXTENDS Naturals, Sequences, FiniteSets, TLC

CONSTANTS SegNames,     \* segment names URIs are built from; ".." and "." have their path meaning
          DotDotNames,  \* the names in SegNames that begin with two dots without being ".."
          MaxSegs,      \* bound on the number of segments of an enumerated URI (model bound)
          Roots,        \* configured directories AS GIVEN: sequence of token sequences (may end in "/", contain "." "..")
          ModOn,        \* are module files written (module_directory and/or modulename_callable configured)?
          ModCallable,  \* TemplateLookup(modulename_callable=...) / Template(module_filename=...): the module path is
                        \* chosen by the caller (here: ModRoot/cb/<source path>.py), not derived from the URI
          ModDir,       \* module_directory as given (token sequence)
          Files,        \* the regular files of the world: set of absolute segment sequences
          Callers,      \* record: context name |-> raw URI (token sequence) of a calling template
          TemplFile,    \* source file used when Template(uri=.., filename=..) is constructed directly
          GenCtx        \* contexts to generate: subset of {"direct", "template"} \cup DOMAIN Callers

Sep == {"/", "\\"}
Tokens == SegNames \cup Sep

(* ------------------------------------------------------------ sequences *)
Last(s) == s[Len(s)]
Front(s) == SubSeq(s, 1, Len(s) - 1)
Prefix(p, d) == Len(p) >= Len(d) /\ SubSeq(p, 1, Len(d)) = d
Beneath(p, d) == Len(p) > Len(d) /\ Prefix(p, d)          \* strictly below directory d

(* ------------------------------------------------------------ strings as token sequences *)
\* str.replace("\\", "/")
MapBs(t) == [i \in DOMAIN t |-> IF t[i] = "\\" THEN "/" ELSE t[i]]
\* re.sub(r"^\/+", "", s)  and  s.lstrip("/")
RECURSIVE LStrip(_)
LStrip(t) == IF t # <<>> /\ Head(t) = "/" THEN LStrip(Tail(t)) ELSE t
RECURSIVE RStrip(_)
RStrip(t) == IF t # <<>> /\ Last(t) = "/" THEN RStrip(Front(t)) ELSE t
LastSlash(t) == LET I == {i \in DOMAIN t : t[i] = "/"}
                IN IF I = {} THEN 0 ELSE CHOOSE i \in I : \A j \in I : j <= i
\* posixpath.dirname: everything up to the last "/", trailing slashes removed unless it is all slashes.
\* On a raw URI a backslash is an ordinary character.
Dirname(t) == LET head == SubSeq(t, 1, LastSlash(t))
              IN IF head # <<>> /\ (\E i \in DOMAIN head : head[i] # "/") THEN RStrip(head) ELSE head
\* posixpath.join(a, b)
JoinT(a, b) == IF b # <<>> /\ Head(b) = "/" THEN b
               ELSE IF a = <<>> \/ Last(a) = "/" THEN a \o b
               ELSE a \o <<"/">> \o b
\* str.split("/") of a token sequence without backslashes ("" for an empty piece)
RECURSIVE Split(_)
Split(t) == IF t = <<>> THEN <<"">>
            ELSE IF Head(t) = "/" THEN <<"">> \o Split(Tail(t))
            ELSE IF Len(t) = 1 THEN <<Head(t)>>
            ELSE <<Head(t)>> \o Split(Tail(Tail(t)))        \* t[2] = "/" (segment tokens are never adjacent)
\* the loop of posixpath.normpath over the components
RECURSIVE NormComps(_, _, _)
NormComps(abs, comps, acc) ==
  IF comps = <<>> THEN acc
  ELSE LET c == Head(comps)
           rest == Tail(comps)
       IN IF c = "" \/ c = "." THEN NormComps(abs, rest, acc)
          ELSE IF c # ".." \/ (~abs /\ acc = <<>>) \/ (acc # <<>> /\ Last(acc) = "..")
               THEN NormComps(abs, rest, Append(acc, c))
          ELSE IF acc # <<>> THEN NormComps(abs, rest, Front(acc))
          ELSE NormComps(abs, rest, acc)                     \* ".." at the root of an absolute path
\* posixpath.normpath / os.path.normpath (POSIX); segs = <<>> stands for "." resp. "/".
\* (A path beginning with exactly two slashes keeps both in Python; roots are assumed not to.)
NormT(t) == LET a == (t # <<>> /\ Head(t) = "/")
            IN [abs |-> a, segs |-> NormComps(a, Split(t), <<>>)]
\* back from a normalised path to its string (token sequence)
RECURSIVE Interleave(_)
Interleave(s) == IF s = <<>> THEN <<>> ELSE IF Len(s) = 1 THEN s ELSE <<Head(s), "/">> \o Interleave(Tail(s))
Unsplit(p) == IF p.abs THEN <<"/">> \o Interleave(p.segs)
              ELSE IF p.segs = <<>> THEN <<".">> ELSE Interleave(p.segs)

(* ------------------------------------------------------------ configuration *)
NDirs == Len(Roots)
\* TemplateLookup.__init__: self.directories = [posixpath.normpath(d) ...]
\* (zero-arity constant definitions are evaluated once by TLC)
Dirs == [i \in 1..NDirs |-> NormT(Roots[i])]
DirToks == [i \in 1..NDirs |-> Unsplit(Dirs[i])]
Dir(i) == Dirs[i]
InsideSomeRoot(p) == \E i \in 1..NDirs : Beneath(p, Dirs[i].segs)
\* os.path.normpath(module_directory)
ModRoot == NormT(ModDir)
ModRootToks == Unsplit(ModRoot)
\* posixpath.dirname(relativeto) for each calling template
CallerDir == [c \in DOMAIN Callers |-> Dirname(Callers[c])]
LookupCtx == {"direct"} \cup DOMAIN Callers
Contexts == LookupCtx \cup {"template"}

(* ------------------------------------------------------------ the two pipelines *)
\* get_template: u = re.sub(r"^\/+", "", uri.replace("\\", "/"))
LookupRel(u) == LStrip(MapBs(u))
\* get_template: srcfile = posixpath.normpath(posixpath.join(dir_, u)) for directory i
Candidate(u, i) == NormT(JoinT(DirToks[i], LookupRel(u)))
\* Template.__init__: u_norm = os.path.normpath(self.uri.replace("\\", "/").lstrip("/"))
UNorm(u) == NormT(LStrip(MapBs(u))).segs
\* Template.__init__: abspath(join(normpath(module_directory), u_norm + ".py")); u_norm is "." for <<>>
ModRel(un) == IF un = <<>> THEN <<"..py">> ELSE Append(Front(un), Last(un) \o ".py")
ModPath(un) == NormT(JoinT(ModRootToks, Interleave(ModRel(un)))).segs
\* the module path the harness' modulename_callable / module_filename gives for source file s
CallablePath(s) == ModRoot.segs \o <<"cb">> \o Front(s) \o <<Last(s) \o ".py">>
\* adjust_uri(uri, relativeto)
AdjustUri(u, c) == IF Head(u) = "/" THEN u ELSE JoinT(CallerDir[c], u)

(* ------------------------------------------------------------ state *)
VARIABLES uri,   \* the raw URI: being built (pc = "build"), then the argument of the request
          pc,    \* "build", "adjust", "probe", "construct", "done"
          ctx,   \* context of the request: "direct" (get_template/has_template), "template"
                 \* (Template(uri=, filename=) constructed directly / put_string), or a caller name
          adj,   \* the URI after adjust_uri (what get_template receives)
          di,    \* index of the directory being probed
          src,   \* the source file found (absolute segment sequence)
          res    \* outcome
vars == <<uri, pc, ctx, adj, di, src, res>>

NoRes == [kind |-> "none"]
Exc(why) == [kind |-> "exc", why |-> why]
\* silent = TRUE: an outcome the property neither demands nor forbids (see ConstructOutcomes); its module
\* path is then not specified by this model (the audit on the implementation side still applies)
Found(p, m, s) == [kind |-> "found", path |-> p, mod |-> m, silent |-> s]

Init == uri = <<>> /\ pc = "build" /\ ctx = "none" /\ adj = <<>> /\ di = 0 /\ src = <<>> /\ res = NoRes

(* ---- enumeration of URIs *)
SegCount(u) == Cardinality({i \in DOMAIN u : u[i] \notin Sep})
               + Cardinality({i \in 1..(Len(u) - 1) : u[i] \in Sep /\ u[i + 1] \in Sep})
CanAppend(u, t) == IF u = <<>> THEN TRUE ELSE IF t \in Sep THEN TRUE ELSE Last(u) \in Sep
Grow(t) == /\ pc = "build" /\ CanAppend(uri, t) /\ SegCount(Append(uri, t)) <= MaxSegs
           /\ uri' = Append(uri, t) /\ UNCHANGED <<pc, ctx, adj, di, src, res>>

(* ---- a request *)
\* file="" raises IndexError in adjust_uri (uri[0]); that is finding #11 of property C07 and not
\* generated here.  Template(uri="") means "no URI" (the URI is then derived from the filename).
Request(c) ==
  /\ pc = "build" /\ c \in GenCtx /\ ctx' = c
  /\ IF c = "direct" THEN adj' = uri /\ pc' = "probe" /\ di' = 1 /\ src' = src
     ELSE IF c = "template" THEN uri # <<>> /\ adj' = uri /\ pc' = "construct" /\ di' = 0 /\ src' = TemplFile
     ELSE uri # <<>> /\ adj' = adj /\ pc' = "adjust" /\ di' = 0 /\ src' = src
  /\ UNCHANGED <<uri, res>>

\* runtime._lookup_template: uri = lookup.adjust_uri(uri, relativeto)
Adjust == /\ pc = "adjust" /\ adj' = AdjustUri(uri, ctx) /\ pc' = "probe" /\ di' = 1
          /\ UNCHANGED <<uri, ctx, src, res>>

\* get_template, one iteration of `for dir_ in self.directories`
ProbeHit == /\ pc = "probe" /\ Candidate(adj, di).segs \in Files
            /\ src' = Candidate(adj, di).segs /\ pc' = "construct"
            /\ UNCHANGED <<uri, ctx, adj, di, res>>
ProbeNext == /\ pc = "probe" /\ Candidate(adj, di).segs \notin Files /\ di < NDirs
             /\ di' = di + 1 /\ UNCHANGED <<uri, pc, ctx, adj, src, res>>
\* `else: raise TopLevelLookupException` (wrapped into TemplateLookupException by _lookup_template)
ProbeFail == /\ pc = "probe" /\ Candidate(adj, di).segs \notin Files /\ di = NDirs
             /\ res' = Exc("toplevel") /\ pc' = "done" /\ UNCHANGED <<uri, ctx, adj, di, src>>

\* Template.__init__ (called by _load with uri = the adjusted URI, filename = normpath(srcfile)).
\* OPTION VECTORS.  Whether the URI is refused does not depend on any option: not on module_directory, not on
\* module_filename / modulename_callable (which only replace the module path), and not on filesystem_checks,
\* collection_size, cache_enabled, strict_undefined, input_encoding, preprocessor, lexer_cls -- none of which
\* appears in this model; the harness crosses the requests with those options and the outcomes must stay the same.
\* Where the property is silent, both outcomes are allowed:
\*  * a first segment like "..name" (an ordinary name inside the root; the code refuses it because
\*    its test is a string prefix test);
\*  * a URI that leaves the root and comes back into a configured directory ("../root/x", or into
\*    another configured directory): the code refuses; serving the inside file would not breach
\*    containment.
ConstructOutcomes(a, s, c) ==
  LET un == UNorm(a)
      escapes == un # <<>> /\ Head(un) = ".."                    \* u_norm.startswith("..") on a ".." segment
      dotdothead == un # <<>> /\ Head(un) \in DotDotNames
  IN IF escapes
     THEN IF c \in LookupCtx /\ InsideSomeRoot(s)                \* out and back: silent
          THEN {Exc("outside"), Found(s, <<>>, TRUE)} ELSE {Exc("outside")}
     ELSE IF dotdothead THEN {Exc("dotdotname"), Found(s, <<>>, TRUE)}
     ELSE {Found(s, IF ModCallable THEN CallablePath(s) ELSE ModPath(un), FALSE)}
Escapes(u) == UNorm(u) # <<>> /\ Head(UNorm(u)) = ".."
Construct == /\ pc = "construct" /\ res' \in ConstructOutcomes(adj, src, ctx) /\ pc' = "done"
             /\ UNCHANGED <<uri, ctx, adj, di, src>>

Step == Adjust \/ ProbeHit \/ ProbeNext \/ ProbeFail \/ Construct
Next == (\E t \in Tokens : Grow(t)) \/ (\E c \in Contexts : Request(c)) \/ Step
Spec == Init /\ [][Next]_vars

(* ------------------------------------------------------------ the property *)
Done == pc = "done"
\* only templates whose source file lies inside a configured directory are returned
Contained == (Done /\ res.kind = "found" /\ ctx \in LookupCtx) => (InsideSomeRoot(res.path) /\ res.path \in Files)
\* module files only beneath module_directory
ModulePathInside == (Done /\ res.kind = "found" /\ ~res.silent /\ ModOn) => Beneath(res.mod, ModRoot.segs)
\* a URI that resolves outside the configured directories raises
ResolvesOutside(u) == \A i \in 1..NDirs : ~InsideSomeRoot(Candidate(u, i).segs)
OutsideRaises == (Done /\ ctx \in LookupCtx /\ ResolvesOutside(adj)) => res.kind = "exc"
\* the file probed outside the roots is never constructed: whenever the probe hit a file outside every
\* root, the Template pipeline refuses  (this is where containment is actually enforced)
OutsideHitRefused == (pc = "construct" /\ ctx \in LookupCtx /\ ~InsideSomeRoot(src)) => Escapes(adj)
\* witness (must be VIOLATED): some enumerated URI does make the probe hit a file outside the roots
NoOutsideHit == ~(pc = "construct" /\ ctx \in LookupCtx /\ ~InsideSomeRoot(src))
\* the two independent normalisations agree on every accepted URI
PipelinesAgree == (Done /\ res.kind = "found" /\ ~res.silent /\ ctx \in LookupCtx)
                     => res.path = Dir(di).segs \o UNorm(adj)
\* what Template.__init__ refuses is exactly what would put the module file outside module_directory
RefusalIsNeeded == (pc = "construct" /\ ModOn /\ Escapes(adj) /\ Len(UNorm(adj)) > 1) => ~Beneath(ModPath(UNorm(adj)), ModRoot.segs)
(* ------------------------------------------------------------ the request as a function *)
\* Summary of the step machine, used to enumerate larger URI sets with one state per URI
\* (Enum_Containment.tla); SummaryMatches ties it to the steps.
Adjusted(u, c) == IF c \in DOMAIN Callers THEN AdjustUri(u, c) ELSE u
\* adjust_uri and the probe loop: the candidates in directory order and the first one that is a file
Resolve(u, c) ==
  LET a == Adjusted(u, c)
      cs == [i \in 1..NDirs |-> Candidate(a, i).segs]
      H == {i \in 1..NDirs : cs[i] \in Files}
  IN [adj |-> a, cands |-> cs, hit |-> IF H = {} THEN 0 ELSE CHOOSE i \in H : \A j \in H : i <= j]
OutcomesR(rz, c) ==
  IF c = "template" THEN ConstructOutcomes(rz.adj, TemplFile, c)
  ELSE IF rz.hit = 0 THEN {Exc("toplevel")} ELSE ConstructOutcomes(rz.adj, rz.cands[rz.hit], c)
Outcomes(u, c) == OutcomesR(Resolve(u, c), c)
SummaryMatches == Done => res \in Outcomes(uri, ctx)
\* the invariants (Contained, ModulePathInside, OutsideRaises) over the set S of outcomes of a request
\* in context c that resolved as rz
OutcomesOK(rz, c, S) ==
  \A r \in S :
    /\ (r.kind = "found" /\ c \in LookupCtx) => (InsideSomeRoot(r.path) /\ r.path \in Files)
    /\ (r.kind = "found" /\ ~r.silent /\ ModOn) => Beneath(r.mod, ModRoot.segs)
    /\ (c \in LookupCtx /\ \A i \in 1..NDirs : ~InsideSomeRoot(rz.cands[i])) => r.kind = "exc"
TypeOK == /\ pc \in {"build", "adjust", "probe", "construct", "done"}
          /\ ctx \in Contexts \cup {"none"}
          /\ res.kind \in {"none", "exc", "found"}
=============================================================================
