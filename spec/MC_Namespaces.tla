--------------------------- MODULE MC_Namespaces ---------------------------
(* Bounded instance of Namespaces.tla: every scenario of the four families for the tier.  Emit prints, *)
(* for every terminal state, the scenario (URI spellings expanded to their segments) and the expected   *)
(* token sequence as one JSON line; harness/c07.py builds the real trees / lookups and compares.        *)
EXTENDS Namespaces, Json
ReqOut(r) == [w |-> Dirs[r.w], k1 |-> r.k1, s1 |-> r.s1, s2 |-> r.s2, k2 |-> r.k2,
              base |-> r.base, bdir |-> (IF r.base = 0 THEN <<>> ELSE Dirs[r.base]), entry |-> r.entry,
              u1 |-> IF Spellings[r.s1].empty THEN [abs |-> FALSE, segs |-> <<>>, empty |-> TRUE]
                     ELSE [abs |-> Spellings[r.s1].abs, segs |-> Spellings[r.s1].pre, empty |-> FALSE],
              u2 |-> IF r.s2 = 0 THEN [abs |-> FALSE, segs |-> <<>>, empty |-> TRUE]
                     ELSE [abs |-> Spellings[r.s2].abs, segs |-> Spellings[r.s2].pre, empty |-> Spellings[r.s2].empty]]
CfgOut == IF cfg.fam = "uri" THEN [fam |-> "uri", reach |-> cfg.reach, layout |-> cfg.layout, reqs |-> [k \in 1..Len(cfg.reqs) |-> ReqOut(cfg.reqs[k])]]
          ELSE cfg
LayoutOut == [l \in 1..3 |-> [nroots |-> NRootsOf(l), dirs |-> [d \in 1..Len(Dirs) |-> [path |-> Dirs[d], troots |-> TRoots(l, d)]]]]
Emit == ~(phase = "done" /\ PrintT(ToJson([cfg |-> CfgOut, out |-> out])) /\ FALSE)
ASSUME PrintT(ToJson([layouts |-> LayoutOut]))
=============================================================================
