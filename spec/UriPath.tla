------------------------------ MODULE UriPath ------------------------------
(***************************************************************************)
(* URIs of templates as sequences of path segments, and how a URI written  *)
(* in a tag of one template is turned into the URI that is looked up.      *)
(*                                                                         *)
(* Mirrors  mako/lookup.py   TemplateLookup.adjust_uri (AdjustUri + its    *)
(*                           memo `_uri_cache`), get_template's search of  *)
(*                           the directories in order (Locate),            *)
(*          mako/template.py the "cannot be relative outside of the root"  *)
(*                           test (Norm = ESC),                            *)
(*          mako/runtime.py  _lookup_template (TopLevelLookupException is  *)
(*                           re-raised as TemplateLookupException).        *)
(*                                                                         *)
(* A spelled URI is [abs, segs, empty]: `segs` are the pieces between the  *)
(* slashes ("" stands for a doubled slash, "." and ".." as written),       *)
(* `abs` says whether it starts with a slash, `empty` is the URI "".       *)
(* The URI of a template that has been found is absolute: a sequence of    *)
(* segments (not normalised: it is the string that was looked up).         *)
(***************************************************************************)
EXTENDS Integers, Sequences, FiniteSets, TLC
ESC == <<"^">>                       \* "climbs above the root": never resolvable
Front(s) == SubSeq(s, 1, Len(s) - 1)
(* POSIX normalisation of the part below the root; ESC once a ".." has nothing to pop *)
RECURSIVE NormFrom(_, _)
NormFrom(segs, st) ==
  IF segs = <<>> \/ st = ESC THEN st
  ELSE LET s == Head(segs) IN
    IF s \in {"", "."} THEN NormFrom(Tail(segs), st)
    ELSE IF s = ".." THEN (IF st = <<>> THEN ESC ELSE NormFrom(Tail(segs), Front(st)))
    ELSE NormFrom(Tail(segs), Append(st, s))
Norm(segs) == NormFrom(segs, <<>>)
(* the URI that is looked up for `u` written in the template whose URI is `rel`:            *)
(* absolute ones are taken from the root, relative ones from the directory of the writer.   *)
Compute(u, rel) == IF u.abs THEN u.segs ELSE Front(rel) \o u.segs
(* adjust_uri with its memo: `memo` is a set of [uri, rel, val]; the key is the pair *)
MemoHit(memo, u, rel) == \E m \in memo : m.uri = u /\ m.rel = rel
AdjustUri(memo, u, rel) ==
  IF MemoHit(memo, u, rel) THEN (CHOOSE m \in memo : m.uri = u /\ m.rel = rel).val ELSE Compute(u, rel)
MemoAfter(memo, u, rel) == IF MemoHit(memo, u, rel) THEN memo ELSE memo \cup {[uri |-> u, rel |-> rel, val |-> Compute(u, rel)]}
MemoConsistentOn(memo) == \A m \in memo : m.val = Compute(m.uri, m.rel)
(* Locate: the file the looked-up URI denotes.  has(root, path) says whether root `root` holds a file *)
(* at the normalised path; the first root in order wins; 0 = nowhere (TemplateLookupException).       *)
Locate(segs, NRoots, has(_, _)) ==
  LET n == Norm(segs) IN
  IF n = ESC \/ n = <<>> THEN 0
  ELSE IF \E r \in 1..NRoots : has(r, n) THEN CHOOSE r \in 1..NRoots : has(r, n) /\ \A r2 \in 1..(r - 1) : ~has(r2, n)
  ELSE 0
=============================================================================
