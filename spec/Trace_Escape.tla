------------------------------- MODULE Trace_Escape -------------------------------
(***************************************************************************)
(* Judges outputs recorded from the real filters (mako.filters.*, and      *)
(* Template.render with encoding_errors='htmlentityreplace') against       *)
(* Escape.tla (direction V).  One initial state per recorded case; the     *)
(* single step computes Outputs(s) for the recorded input and compares     *)
(* every recorded output with it; in addition the property predicates are  *)
(* evaluated on the OBSERVED outputs themselves.  Verdicts are total: one  *)
(* JSON line {t, ok, clause} per case, naming the first output that        *)
(* differs.  Inputs may contain any character: the harness adds the facts  *)
(* of every character used to the alphabet in EscapeInput.                 *)
(* obs.enc is a sequence of <<charset, output>> pairs.                     *)
(***************************************************************************)
EXTENDS MC_Escape
Cases == InCases
VARIABLES tr, verdict
tvars == <<vars, tr, verdict>>
TInit == /\ tr \in 1..Len(Cases) /\ str = Cases[tr].s /\ out = Outputs(Cases[tr].s) /\ der = Derived(out) /\ verdict = "run"
Ob == Cases[tr].obs
Has(f) == f \in DOMAIN Ob
\* Known deviation of the code (finding #3, kept out of every MC instance): the handler returns
\* str() of the escaper's BYTES, so each handler call contributes b'...' around its replacement.
\* A codec calls the handler once per maximal unencodable run (charmap codecs) or once per character
\* (multibyte codecs); both segmentations are recognised.
Quoted(o) == <<"b", "'">> \o o \o <<"'">>
RECURSIVE DevPieces(_, _, _)
DevPieces(s, cs, perRun) ==
  IF s = <<>> THEN <<>>
  ELSE IF Encodable(Head(s), cs) THEN <<Head(s)>> \o DevPieces(Tail(s), cs, perRun)
  ELSE LET k == IF perRun THEN RunLen(s, cs) ELSE 1
           p == HandlerPieces(SubSeq(s, 1, k))
       IN Quoted(Concat([i \in DOMAIN p |-> p[i].out])) \o DevPieces(SubSeq(s, k + 1, Len(s)), cs, perRun)
Dev_BytesRepr == \A i \in DOMAIN Ob.enc :
                    LET cs == Ob.enc[i][1] IN
                    Ob.enc[i][2] \in {der.enc[cs], DevPieces(str, cs, TRUE), DevPieces(str, cs, FALSE)}
Clause ==
  IF Has("h") /\ Ob.h # out.h THEN "h"
  ELSE IF Has("x") /\ Ob.x # out.x THEN "x"
  ELSE IF Has("u") /\ Ob.u # out.u THEN "u"
  ELSE IF Has("entity") /\ Ob.entity # out.entity THEN "entity"
  ELSE IF Has("unescape") /\ Ob.unescape # str THEN "entity-unescape"
  ELSE IF Has("trim") /\ Ob.trim # out.trim THEN "trim"
  ELSE IF Has("dec") /\ (\E k \in DOMAIN Ob.dec : Ob.dec[k] # out.dec[k].val) THEN "decode"
  ELSE IF \E i \in DOMAIN Ob.enc : Ob.enc[i][2] # der.enc[Ob.enc[i][1]]
       THEN (IF Dev_BytesRepr THEN "dev:bytes-repr" ELSE "htmlentityreplace")
  ELSE IF Has("h") /\ ~NeutralOut(Ob.h) THEN "prop:Neutral-h"
  ELSE IF Has("x") /\ ~NeutralOut(Ob.x) THEN "prop:Neutral-x"
  ELSE IF ~(Neutral /\ Invertible /\ UrlSafe /\ UrlInvertible /\ EntityExact /\ TrimOnlyEnds /\ DecodeStr /\ HandlerTotal) THEN "prop:model"
  ELSE ""
TStep == /\ verdict = "run" /\ verdict' = (IF Clause = "" THEN "ok" ELSE "fail")
         /\ PrintT(ToJson([t |-> Cases[tr].id, ok |-> (Clause = ""), clause |-> Clause]))
         /\ UNCHANGED <<vars, tr>>
TSpec == TInit /\ [][TStep]_tvars
=============================================================================
