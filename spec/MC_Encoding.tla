---------------------------- MODULE MC_Encoding ----------------------------
(***************************************************************************)
(* Bounded instances of Encoding.tla.  The codec tables (T_ names) come from *)
(* Encoding_Tables.tla, which harness/c18.py regenerates from CPython's    *)
(* codecs on every run (the copy in spec/ only keeps the module parseable  *)
(* on its own).  Three cell sets:                                          *)
(*   T_Cells   the cells the harness concretises (explicit list)           *)
(*   InitIn    every true codec x BOM x comment x input_encoding x         *)
(*             character pair of the codec's repertoire x path             *)
(*   InitOut   every (character, symbol) x output_encoding x errors        *)
(* A finished cell prints its expected observations (Emit).                *)
(***************************************************************************)
EXTENDS Encoding, Encoding_Tables, Json
Decls == {None} \cup T_Spellings
Paths == {"bytes", "file", "moddir", "reload"}
Entries(p, diag) == IF p = "bytes" THEN (IF diag THEN {"direct", "put_string"} ELSE {"direct", "put_string", "put_template"})
                    ELSE (IF diag THEN {"direct"} ELSE {"direct", "lookup", "put_template"})
NoCells == {}
InitList == InitRest /\ \E i \in 1..Len(T_Cells) : cell = T_Cells[i]
\* the grids are enumerated as initial states (not built as sets)
InitInP(diag) ==
          /\ InitRest
          /\ \E x \in T_True, b \in BOOLEAN, cm \in Decls, ie \in Decls, p \in Paths :
               \E c1 \in T_Rep[x] : \E c2 \in (IF diag THEN {c1, "A"} ELSE T_Rep[x]) :
               \E en \in Entries(p, diag) :
               \E o \in (IF p \in {"moddir", "reload"} THEN (IF diag THEN {"none", "future1"} ELSE {"none", "future1", "modblock"}) ELSE {"none"}) :
                 cell = [id |-> 0, form |-> "bytes", x |-> x, bom |-> b, cm |-> cm, ie |-> ie, c |-> <<c1, c2>>,
                         path |-> p, oe |-> None, errs |-> "strict", opt |-> o, bj |-> None, bp |-> None, ent |-> en, dp |-> None, dc |-> None]
InitOutP(diag) ==
           /\ InitRest
           /\ \E c1 \in (IF diag THEN {"A"} ELSE T_Base), oe \in {None} \cup T_Out, e \in T_Errs :
                \/ \E c2 \in T_GridSyms :
                     cell = [id |-> 0, form |-> "str", x |-> "utf_8", bom |-> FALSE, cm |-> None, ie |-> None,
                             c |-> <<c1, c2>>, path |-> "bytes", oe |-> oe, errs |-> e, opt |-> "none", bj |-> None, bp |-> None, ent |-> "direct", dp |-> None, dc |-> None]
                \/ \E c2 \in T_Base, p \in (IF diag THEN {"moddir"} ELSE Paths) :
                     cell = [id |-> 0, form |-> "bytes", x |-> "utf_8", bom |-> FALSE, cm |-> None, ie |-> None,
                             c |-> <<c1, c2>>, path |-> p, oe |-> oe, errs |-> e, opt |-> "none", bj |-> None, bp |-> None, ent |-> "direct", dp |-> None, dc |-> None]
\* possibly undecodable input: every byte string x position x true codec x BOM x declaration x path
InitBadP(diag) ==
           /\ InitRest
           /\ \E x \in T_True, b \in BOOLEAN, j \in T_Junk, p \in Paths,
                 pos \in {"start", "aftercomment", "incomment", "middle", "eol_lf", "eol_crlf", "eof"} :
               \E cm \in {None, x}, ie \in {None, x}, c1 \in (IF diag THEN {"A"} ELSE T_Rep[x]) :
                 /\ (pos \in {"incomment", "aftercomment"} => cm # None) /\ (pos = "start" => cm = None)
                 /\ T_JunkCodec[j] \in {"any", x}          \* a character (not a raw byte string) comes in the cell's codec
                 /\ ((T_JunkHex[j] = "hefbbbf" /\ pos = "start") => b)   \* U+FEFF first, without a mark before it, IS the mark
                 /\ cell = [id |-> 0, form |-> "bytes", x |-> x, bom |-> b, cm |-> cm, ie |-> ie, c |-> <<c1, "A">>,
                            path |-> p, oe |-> None, errs |-> "strict", opt |-> "none", bj |-> j, bp |-> pos, ent |-> "direct", dp |-> None, dc |-> None]
\* lines that look like a coding declaration below line 1: position x named codec x real declaration x path
InitDecoyP(diag) ==
           /\ InitRest
           /\ \E x \in T_True, p \in Paths, dp \in {"line2", "line3", "mid", "intext", "incomment", "indoc", "instring"} :
               \E cm \in {None, x}, ie \in {None, x}, c1 \in T_Rep[x], dc \in (IF diag THEN {x, "koi8_r", "shift_jis"} ELSE T_True) :
                 cell = [id |-> 0, form |-> "bytes", x |-> x, bom |-> FALSE, cm |-> cm, ie |-> ie, c |-> <<c1, "A">>,
                         path |-> p, oe |-> None, errs |-> "strict", opt |-> "none", bj |-> None, bp |-> None, ent |-> "direct",
                         dp |-> dp, dc |-> dc]
Report == /\ Finished /\ Emit /\ PrintT(ToJson(Observation)) /\ pc' = "reported"
          /\ UNCHANGED <<cell, enc, res, text, content, modfile, loaded, src, uni, out>>
MCNext == Next \/ Report
MCSpec == InitList /\ [][MCNext]_vars
SpecIn == InitInP(FALSE) /\ [][MCNext]_vars
SpecInDiag == InitInP(TRUE) /\ [][MCNext]_vars     \* quick tier: the second character equals the first or is ASCII
SpecBad == InitBadP(FALSE) /\ [][MCNext]_vars
SpecBadDiag == InitBadP(TRUE) /\ [][MCNext]_vars    \* quick tier: the ordinary characters of the cell are ASCII
SpecDecoy == InitDecoyP(FALSE) /\ [][MCNext]_vars
SpecDecoyDiag == InitDecoyP(TRUE) /\ [][MCNext]_vars
SpecOut == InitOutP(FALSE) /\ [][MCNext]_vars
SpecOutDiag == InitOutP(TRUE) /\ [][MCNext]_vars   \* quick tier: first character fixed
\* the tables are closed under a round trip (what the module-file paths rely on); checked once
ASSUME \A k \in DOMAIN T_DecT : \A h \in DOMAIN T_DecT[k] :
          T_DecT[k][h] # "fail" => T_EncT[k][T_DecT[k][h]] = h
=============================================================================
