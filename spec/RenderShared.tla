---------------------------- MODULE RenderShared ----------------------------
(***************************************************************************)
(* Concurrent renders through one TemplateLookup (property C16, render     *)
(* half): mako/runtime.py (Context: buffer stack, per-render namespaces;   *)
(* _render, _include_file, _inherit_from, _lookup_template),               *)
(* mako/lookup.py get_template/_load, mako/util.py LRUCache.__setitem__ /  *)
(* _manage_size, lazily memoised shared objects (Template.cache,           *)
(* Template.reserved_names, ModuleInfo._modules, cache backend).           *)
(*                                                                         *)
(* Each thread t renders page page[t] with its own context value ctx[t].   *)
(* A page is a flat program of primitive operations (Progs[p]):            *)
(*   emit tok   write literal text              (private top buffer)       *)
(*   ctx        write the thread's own context value                       *)
(*   mark n     observation point (writes nothing)                         *)
(*   push/pop   context._push_buffer / pop-and-write (capture, filtered    *)
(*              block, buffered def): private buffer stack                 *)
(*   shared c   use of shared cell c (a template reached through the       *)
(*              lookup by include / namespace / inherit, or a lazily       *)
(*              memoised object): check, and if unset initialise-and-store *)
(* Private state: ip, buf (the Context's buffer stack), out.               *)
(* Shared state: cell (unset / canonical value), the size of the bounded   *)
(* collection and who is inside LRUCache.__setitem__.                      *)
(* Bounded collection: capacity Cap (0 = unbounded), trimmed by            *)
(* _manage_size to Cap entries whenever it exceeds Cap + Cap/2.            *)
(*                                                                         *)
(* Properties: RenderIsolation (a finished thread's output is exactly the  *)
(* sequential meaning of its page under its own context), PrivateStacks,   *)
(* MemoStable, MemoCompleteWhenVisible (a visible shared cell holds its    *)
(* complete canonical value; PublishEarly = TRUE is the broken variant     *)
(* "publish, then complete" that TLC must refute),                         *)
(* BoundUnderConcurrency (whenever nobody is inside a store the collection *)
(* is within its bound).  SharedBuf = TRUE is the broken variant "render   *)
(* state lives on the Template": all threads use one buffer stack; TLC     *)
(* must find RenderIsolation violated there (used as a control).           *)
(***************************************************************************)
EXTENDS Naturals, Sequences, SequencesExt, FiniteSets, TLC
CONSTANTS Threads, Pages, Progs, CtxVals, Cells, Cap, SharedBuf, PublishEarly
Bound == Cap + Cap \div 2
Canon(c) == c                       \* what initialising cell c yields, whoever does it
Owner(t) == IF SharedBuf THEN CHOOSE x \in Threads : TRUE ELSE t

(* ---- the private meaning of one operation on a buffer stack b (a sequence of token sequences) ---- *)
Top(b) == b[Len(b)]
WriteTop(b, toks) == [b EXCEPT ![Len(b)] = @ \o toks]
Apply(b, op, c) ==
   CASE op.op = "emit" -> WriteTop(b, <<op.tok>>)
     [] op.op = "ctx"  -> WriteTop(b, <<c>>)
     [] op.op = "push" -> Append(b, <<>>)
     [] op.op = "pop"  -> IF Len(b) > 1 THEN WriteTop(SubSeq(b, 1, Len(b) - 1), Top(b)) ELSE b
     [] OTHER          -> b
\* sequential meaning of a program from position i on
\* buffer stack after the operations i..j of prog, starting from b (FoldLeft is evaluated eagerly by its
\* Java override; a RECURSIVE definition re-evaluates its lazily passed accumulator exponentially often)
RunRange(prog, i, j, b, c) == FoldLeft(LAMBDA acc, o : Apply(acc, o, c), b, SubSeq(prog, i, j))
Solo(p, c) == Top(RunRange(Progs[p], 1, Len(Progs[p]), <<<<>>>>, c))

VARIABLES page, ctx, ip, phase, buf, out, cell, size, inside
vars == <<page, ctx, ip, phase, buf, out, cell, size, inside>>
Init == /\ page \in [Threads -> Pages] /\ ctx \in [Threads -> CtxVals]
        /\ ip = [t \in Threads |-> 0]                  \* 0 = not started
        /\ phase = [t \in Threads |-> "run"]
        /\ buf = [t \in Threads |-> <<<<>>>>]
        /\ out = [t \in Threads |-> <<>>]
        /\ cell = [c \in Cells |-> "unset"]
        /\ size = 0 /\ inside = {}
Prog(t) == Progs[page[t]]
Begin(t) == /\ ip[t] = 0 /\ ip' = [ip EXCEPT ![t] = 1]
            /\ buf' = [buf EXCEPT ![Owner(t)] = <<<<>>>>]
            /\ UNCHANGED <<page, ctx, phase, out, cell, size, inside>>
\* a private operation
Private(t) == /\ ip[t] >= 1 /\ ip[t] <= Len(Prog(t)) /\ phase[t] = "run"
              /\ Prog(t)[ip[t]].op # "shared"
              /\ buf' = [buf EXCEPT ![Owner(t)] = Apply(@, Prog(t)[ip[t]], ctx[t])]
              /\ ip' = [ip EXCEPT ![t] = @ + 1]
              /\ UNCHANGED <<page, ctx, phase, out, cell, size, inside>>
\* shared cell: check ...
Check(t) == /\ ip[t] >= 1 /\ ip[t] <= Len(Prog(t)) /\ phase[t] = "run"
            /\ Prog(t)[ip[t]].op = "shared"
            /\ IF cell[Prog(t)[ip[t]].c] # "unset"
               THEN ip' = [ip EXCEPT ![t] = @ + 1] /\ UNCHANGED phase
               ELSE phase' = [phase EXCEPT ![t] = "init"] /\ UNCHANGED ip
            /\ UNCHANGED <<page, ctx, buf, out, cell, size, inside>>
\* ... then set (LRUCache.__setitem__ begins: the entry is in, the size may exceed the bound)
StoreBegin(t) == /\ phase[t] = "init"
                 /\ LET c == Prog(t)[ip[t]].c IN
                      /\ size' = (IF cell[c] = "unset" THEN size + 1 ELSE size)
                      \* the code builds the complete value first and publishes it with one store; PublishEarly = TRUE is
                      \* the broken variant "publish, then complete" (the cell is visible while still partial)
                      /\ cell' = [cell EXCEPT ![c] = IF PublishEarly THEN "partial" ELSE Canon(c)]
                 /\ inside' = inside \cup {t} /\ phase' = [phase EXCEPT ![t] = "trim"]
                 /\ UNCHANGED <<page, ctx, ip, buf, out>>
\* _manage_size: while len > Cap + Cap/2: keep the Cap most recent entries (any others are dropped)
Trim(t) == /\ phase[t] = "trim" /\ Cap > 0 /\ size > Bound
           /\ \E drop \in SUBSET {c \in Cells : cell[c] # "unset" /\ c # Prog(t)[ip[t]].c} :
                /\ Cardinality(drop) = size - Cap
                /\ cell' = [c \in Cells |-> IF c \in drop THEN "unset" ELSE cell[c]]
           /\ size' = Cap
           /\ UNCHANGED <<page, ctx, ip, phase, buf, out, inside>>
StoreEnd(t) == /\ phase[t] = "trim" /\ (Cap = 0 \/ size <= Bound)
               /\ inside' = inside \ {t} /\ phase' = [phase EXCEPT ![t] = "run"]
               /\ ip' = [ip EXCEPT ![t] = @ + 1]
               /\ cell' = (IF PublishEarly /\ cell[Prog(t)[ip[t]].c] = "partial"
                           THEN [cell EXCEPT ![Prog(t)[ip[t]].c] = Canon(Prog(t)[ip[t]].c)] ELSE cell)
               /\ UNCHANGED <<page, ctx, buf, out, size>>
End(t) == /\ ip[t] = Len(Prog(t)) + 1 /\ phase[t] = "run"
          /\ out' = [out EXCEPT ![t] = Top(buf[Owner(t)])]
          /\ ip' = [ip EXCEPT ![t] = Len(Prog(t)) + 2]
          /\ UNCHANGED <<page, ctx, phase, buf, cell, size, inside>>
Step(t) == Begin(t) \/ Private(t) \/ Check(t) \/ StoreBegin(t) \/ Trim(t) \/ StoreEnd(t) \/ End(t)
Next == \E t \in Threads : Step(t)
Spec == Init /\ [][Next]_vars /\ \A t \in Threads : WF_vars(Step(t))

Done(t) == ip[t] = Len(Prog(t)) + 2
RenderIsolation == \A t \in Threads : Done(t) => out[t] = Solo(page[t], ctx[t])
BoundUnderConcurrency == (Cap > 0 /\ inside = {}) => size <= Bound
SizeIsCount == size = Cardinality({c \in Cells : cell[c] # "unset"})
MemoStable == \A c \in Cells : cell[c] \in {"unset", "partial", Canon(c)}
\* whatever another thread can read from a shared memo cell is the fully initialised value (Cache._def_regions entry with
\* the def's own cache_* arguments merged in, Template.cache, reserved_names, a collection entry ...)
MemoCompleteWhenVisible == \A c \in Cells : cell[c] \in {"unset", Canon(c)}
\* a step of one thread never touches the private state of another
PrivateStacks == [][\A t \in Threads : Step(t) => \A o \in Threads \ {t} : buf'[o] = buf[o] /\ out'[o] = out[o] /\ ip'[o] = ip[o]]_vars
AllRendersFinish == \A t \in Threads : <>Done(t)
=============================================================================
