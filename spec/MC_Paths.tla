---- MODULE MC_Paths ----
\* Bounded instances of Paths.tla: histories up to Depth actions; module-id functions for the instances.
EXTENDS Paths
CONSTANT Depth
Bound == TLCGet("level") <= Depth
\* every source has its own module ids
MU_distinct == [s \in Sources |-> <<"u", s>>]
MF_distinct == [s \in Sources |-> <<"f", s>>]
\* s1 and s2 are a-b.html and a_b.html (in one directory): their ids coincide by URI and by file name
MU_mixed == [s \in Sources |-> IF s \in {"s1", "s2"} THEN <<"u", "a_b_html">> ELSE <<"u", s>>]
MF_mixed == [s \in Sources |-> IF s \in {"s1", "s2"} THEN <<"f", "a_b_html">> ELSE <<"f", s>>]
====
