------------------------------- MODULE Cache -------------------------------
(***************************************************************************)
(* Cached sections of Mako templates over histories of renders,            *)
(* invalidations, cache.set/get and cache_enabled toggles (property C17).  *)
(*                                                                         *)
(* Mirrors, in the shape of the code:                                      *)
(*   mako/codegen.py  write_cache_decorator (key, cache_* argument merge   *)
(*                    page < section, int(timeout), wrapper conventions    *)
(*                    top-level vs inline), write_def_finish (what the     *)
(*                    inner function returns: filter applied, buffer       *)
(*                    filters not), write_inline_def;                      *)
(*   mako/cache.py    Cache.__init__ (id = module name), _ctx_get_or_create*)
(*                    (cache_enabled test), _get_cache_kw (the _def_regions*)
(*                    table: frozen by WHICHEVER call with that defname    *)
(*                    comes first), set/get/invalidate, invalidate_body /  *)
(*                    invalidate_def / invalidate_closure;                 *)
(*   mako/template.py module_id = re.sub(r"\W", "_", uri), _setup_cache_args*)
(*                                                                         *)
(* A "world" is a sequence of templates sharing one backend.  A template   *)
(* is  [uri, targs, bf, en0, inh, isbase, page, secs]:                     *)
(*   uri    sequence of symbols (word chunks and punctuation)              *)
(*   targs  Template(cache_args=...) as a sequence of <<name, value>>      *)
(*   bf     whether Template(buffer_filters=[..]) is set                   *)
(*   en0    Template(cache_enabled=...);  strict = strict_undefined        *)
(*   inh    template it inherits from (0 = none); isbase = its page calls  *)
(*          next.body() (it is only rendered through an inheriting one)    *)
(*   page   [cached, key, pfx, args, sig, kp, items] (<%page> tag + body)   *)
(*   secs   sequence of [name, kind, cached, key, pfx, args, buf, filt,    *)
(*          sig, kp, items]; kind in def | ndef (nested def) | nblock |    *)
(*          ablock; sig = the callable's signature (see Bind), kp = the    *)
(*          parameter its cache_key mentions; reads = the body also reads  *)
(*          the context name `u`, which a render may leave out (h = FALSE) *)
(*   items  what a body does after printing its own token: a sequence of   *)
(*          [sec, pos, kw, tm, how]: call section `sec` with positional    *)
(*          and keyword actuals; how = "call" (same template),             *)
(*          "ns" (def of template tm through a namespace), "inc" (include  *)
(*          of template tm), "next" (next.body() of an inherited page)     *)
(* key = "static" (the callable's name), "ctx" (cache_key="<pfx>${v}"),     *)
(* "arg" (cache_key="<pfx>${p}", p a parameter of the callable), "argctx"  *)
(* (both) or "mod" (a module-level name).                                  *)
(* Values are tagged strings ("s:memory", "i:7", "o:dict") so that an int  *)
(* and a string never get compared by TLC.                                 *)
(* Output is a sequence of tokens <<name, n, ctx, b, t>>: section `name` of *)
(* template t, n-th execution of its body, context value and the binding b *)
(* of its parameters the body saw; filter and buffer-filter applications   *)
(* are bracket tokens around the content.                                  *)
(* Worlds are assumed well-formed (the generator guarantees it): calls     *)
(* across templates go to higher-numbered templates, and a section never   *)
(* reaches, through calls, a section with a possibly equal key in the same *)
(* namespace (a cached callable invoking itself under its own key).        *)
(*                                                                         *)
(* The model follows the CODE where `AsCoded` names a deviation:           *)
(*   "regions-by-invalidate"  invalidate_* freezes the _def_regions entry  *)
(*   "ns-sanitised"           cache id = URI with non-word characters      *)
(*                            replaced by "_"                              *)
(*   "inline-bf"              the wrapper of an inline (nested def /       *)
(*                            anonymous block) cached section never        *)
(*                            applies buffer_filters                       *)
(*   "block-names-hoisted"    under strict_undefined the names a cached    *)
(*                            <%block> body reads are looked up by the     *)
(*                            ENCLOSING render function, hit or miss       *)
(* With AsCoded = {} it is the intended design, for which the strict       *)
(* invariants hold; with the deviations switched on TLC produces the       *)
(* counterexamples which the harness replays on the real code.             *)
(***************************************************************************)
EXTENDS Naturals, Sequences, FiniteSets, TLC, CacheProgs
\* the worlds [tmpls, passctx] (passctx = CacheImpl.pass_context of the backend) are the literal ProgsDef of
\* module CacheProgs, which the harness regenerates for every TLC run (a definition, not a CONSTANT: TLC
\* evaluates a constant-level definition once, a cfg substitution on every use)
Progs == ProgsDef
CONSTANTS CtxVals,   \* values of the context variable v
          AsCoded,   \* set of deviation names the model follows the code in
          Ops,       \* which operations occur in histories
          XVals      \* subset of BOOLEAN: whether cache.get/set/invalidate are called without / with explicit **kw
VARIABLES pg,        \* which world (fixed by the initial state)
          store,     \* [ns -> [key -> entry]], only present keys in the domain
          runs,      \* ghost: [ns -> [key -> number of executions since the last invalidation of key]]
          regions,   \* [t -> [defname -> [kw, byInv]]], the _def_regions tables
          enabled,   \* [t -> cache_enabled]
          execs,     \* [t -> [0..n -> executions of the body of section j]], 0 = page body
          nset,      \* number of cache.set calls so far (makes set values distinct)
          last       \* observable record of the last operation
vars == <<pg, store, runs, regions, enabled, execs, nset, last>>

W == Progs[pg].tmpls
PassCtx == Progs[pg].passctx
T == DOMAIN W
NSec(t) == Len(W[t].secs)
\* the page seen as section 0
SecOf(t, j) == IF j = 0 THEN [name |-> "body", kind |-> "page", cached |-> W[t].page.cached, key |-> W[t].page.key,
                              pfx |-> W[t].page.pfx, args |-> W[t].page.args, buf |-> FALSE, filt |-> FALSE,
                              sig |-> W[t].page.sig, kp |-> W[t].page.kp, reads |-> W[t].page.reads,
                              items |-> W[t].page.items]
               ELSE W[t].secs[j]
TopLevel(s) == s.kind \in {"page", "def", "nblock"}

(* ---------------- argument dictionaries ---------------- *)
Empty == <<>>
ToFn(ps) == [n \in {ps[i][1] : i \in DOMAIN ps} |->
               ps[CHOOSE i \in DOMAIN ps : ps[i][1] = n /\ \A i2 \in DOMAIN ps : ps[i2][1] = n => i2 <= i][2]]
\* int(eval(...)) of a timeout written in a tag attribute
TimeoutConv == ("s:7" :> "i:7") @@ ("s:34" :> "i:34") @@ ("s:3600" :> "i:3600") @@ ("s:7200" :> "i:7200") @@ ("s:86400" :> "i:86400")
               @@ ("s:${60*60}" :> "i:3600")       \* an expression attribute: cache_timeout="${60*60}"
\* a cache_* attribute may be an expression: cache_foo="${MK}" (one name, a module-level constant "m")
Conv(f) == [n \in DOMAIN f |-> IF n = "timeout" /\ f[n] \in DOMAIN TimeoutConv THEN TimeoutConv[f[n]]
                              ELSE IF f[n] = "s:${MK}" THEN "s:m" ELSE f[n]]
TArgs(t) == ToFn(W[t].targs)
\* what the generated wrapper passes: page cache_* updated with the section's own, then timeout -> int
SecKw(t, s) == Conv(ToFn(s.args) @@ ToFn(W[t].page.args))
\* what the property demands the backend to see for a section
Expected(t, s) == LET b == Conv(ToFn(s.args)) @@ Conv(ToFn(W[t].page.args)) @@ TArgs(t)
                  IN IF PassCtx THEN b @@ ("context" :> "CTX") ELSE b

(* ---------------- keys, names, namespaces ---------------- *)
DefName(s) == IF s.kind \in {"page", "def", "nblock"} THEN <<"render_", s.name>> ELSE <<"", s.name>>
\* ---- signatures.  sig = sequence of parameters [n (name), k (kind), d (default)], in a legal order:
\*   "pos" (positional) * , "def" (positional with default) * , ["var" (*args)], ("kwo" | "kwd": keyword-only without /
\*   with default) * , ["kw" (**kwargs)].  A call supplies positional actuals `pos` and keyword actuals `kw`
\*   (<<name, actual>>); the actual "V" is the context variable.  Bind is Python's binding of a LEGAL call (the generator
\*   only produces legal ones): the creation function of a cached section must receive exactly these bindings.
\*   A binding is a sequence (one element per parameter) of sequences of strings: <<value>> for a scalar parameter, the
\*   extra positionals for *args, name, value, name, value ... (sorted by name) for **kwargs.
Act(v, c) == IF v = "V" THEN c ELSE v
KwExtra == <<"k1", "k2">>
Bind(sig, pos0, kw0, c) ==
  LET pos  == [i \in DOMAIN pos0 |-> Act(pos0[i], c)]
      kwn  == {kw0[i][1] : i \in DOMAIN kw0}
      kwf  == [n \in kwn |-> Act(kw0[CHOOSE i \in DOMAIN kw0 : kw0[i][1] = n][2], c)]
      npc  == Cardinality({i \in DOMAIN sig : sig[i].k \in {"pos", "def"}})
      own  == {sig[i].n : i \in DOMAIN sig}
      Ex(n) == IF n \in kwn \ own THEN <<n, kwf[n]>> ELSE <<>>
      One(i) == LET p == sig[i] IN
                IF p.k \in {"pos", "def"}
                THEN <<IF i <= Len(pos) THEN pos[i] ELSE IF p.n \in kwn THEN kwf[p.n] ELSE p.d>>
                ELSE IF p.k = "var" THEN (IF Len(pos) > npc THEN SubSeq(pos, npc + 1, Len(pos)) ELSE <<>>)
                ELSE IF p.k \in {"kwo", "kwd"} THEN <<IF p.n \in kwn THEN kwf[p.n] ELSE p.d>>
                ELSE Ex(KwExtra[1]) \o Ex(KwExtra[2])
  IN [i \in DOMAIN sig |-> One(i)]
\* cache_key is evaluated in the scope of the section's wrapper: context variables ("ctx": <pfx>${v}), any scalar
\* parameter of the callable (kp = its index; "arg": <pfx>${p}), both ("argctx": <pfx>${p}_${v}), module-level names
\* ("mod": <pfx>${MK})
KeyOf(s, c, b) == IF s.key = "static" THEN DefName(s) ELSE IF s.key = "ctx" THEN <<s.pfx, c>>
                  ELSE IF s.key = "arg" THEN <<s.pfx, b[s.kp][1]>> ELSE IF s.key = "argctx" THEN <<s.pfx, b[s.kp][1], c>>
                  ELSE IF s.key = "lit" THEN <<s.pfx, "lit">>       \* cache_key="<pfx>lit": an attribute without any name
                  ELSE <<s.pfx, "m">>
\* the page body (<%page args="..."/>), rendered / included / reached through next.body(): no actuals, defaults apply
PageBind(t) == Bind(W[t].page.sig, <<>>, <<>>, "")
WordSym(x) == x \notin {"-", ".", "/", "~", "+", " "}
Sanitise(u) == [i \in DOMAIN u |-> IF WordSym(u[i]) THEN u[i] ELSE "_"]
Ns(t) == IF "ns-sanitised" \in AsCoded THEN Sanitise(W[t].uri) ELSE W[t].uri
NsSet == {Ns(t) : t \in T}
Without(f, k) == [x \in DOMAIN f \ {k} |-> f[x]]

(* ---------------- output tokens ---------------- *)
Tok(name, n, c, a, t) == <<name, n, c, a, t>>
Br(x) == <<x, 0, "", <<>>, 0>>
Fw(on, v) == IF on THEN <<Br("{")>> \o v \o <<Br("}")>> ELSE v           \* the section's own filter
BFw(on, v) == IF on THEN <<Br("<")>> \o v \o <<Br(">")>> ELSE v          \* Template buffer_filters
\* what the section writes when it is not cached (write_def_finish): filter, then buffer filters iff buffered
Uncached(t, s, body) == BFw(s.buf /\ W[t].bf, Fw(s.filt, body))
\* what the inner function of a cached section returns = what is stored (buffer filters are NOT applied)
Inner(s, body) == Fw(s.filt, body)
\* what the cache wrapper does with the value it got from the cache (write_cache_decorator): the
\* top-level wrapper of a buffered section applies buffer_filters; the inline wrapper is always
\* generated with buffered=False
Post(t, s, v) == BFw(s.buf /\ W[t].bf /\ (TopLevel(s) \/ "inline-bf" \notin AsCoded), v)

(* ---------------- Cache._get_cache_kw ---------------- *)
\* rg = the template's _def_regions; dn = __M_defname; kw = arguments of the call
CacheKw(t, rg, dn, kw, withCtx, fromInv) ==
  LET known  == dn \in DOMAIN rg
      base   == IF known THEN rg[dn].kw ELSE kw @@ TArgs(t)
      freeze == ~known /\ (~fromInv \/ "regions-by-invalidate" \in AsCoded)
  IN [kw    |-> IF withCtx /\ PassCtx THEN base @@ ("context" :> "CTX") ELSE base,
      rg    |-> IF freeze THEN (dn :> [kw |-> base, byInv |-> fromInv]) @@ rg ELSE rg,
      byInv |-> known /\ rg[dn].byInv]
\* no __M_defname: template args updated with the call's own **kw (x: the call passes timeout=9999)
PlainKw(t, x) == IF x THEN ("timeout" :> "i:9999") @@ TArgs(t) ELSE TArgs(t)

(* ---------------- rendering ---------------- *)
\* S = [st, rn, ex, rg, calls, served, out]: backend content and ghost runs (all namespaces), executions and
\* regions (all templates), backend calls and served sections of this render, output of the current buffer.
\* An item [sec, arg, tm, how]: how = "call" calls section sec of the same template; "ns" calls the top-level
\* def sec of template tm through a <%namespace file=...>; "inc" is <%include file=...> of template tm.  Every
\* callable uses the cache of the template it was compiled in (context.get('local').cache).  how = "next" is
\* ${next.body()} in the page of a template that others inherit from: S.nx is the rest of the inheritance chain
\* (a render of template t with <%inherit> runs the page of the base-most template first).
\* inheritance chain of t, base-most first (inh = 0: no <%inherit>)
RECURSIVE Chain(_)
Chain(t) == IF W[t].inh = 0 THEN <<t>> ELSE Chain(W[t].inh) \o <<t>>

RECURSIVE RunItems(_, _, _, _, _), RunSec(_, _, _, _, _)
RunItems(t, c, items, i, S) ==
  IF i > Len(items) THEN S
  ELSE LET it == items[i] IN
       RunItems(t, c, items, i + 1,
                IF it.how = "call" THEN RunSec(t, c, it.sec, Bind(SecOf(t, it.sec).sig, it.pos, it.kw, c), S)
                ELSE IF it.how = "ns" THEN RunSec(it.tm, c, it.sec, Bind(SecOf(it.tm, it.sec).sig, it.pos, it.kw, c), S)
                ELSE IF it.how = "inc"       \* the included template is rendered through its own inheritance chain
                THEN LET ch == Chain(it.tm) IN [RunSec(Head(ch), c, 0, PageBind(Head(ch)), [S EXCEPT !.nx = Tail(ch)]) EXCEPT !.nx = S.nx]
                ELSE \* "next": ${next.body()} in the page of an inherited template
                     [RunSec(Head(S.nx), c, 0, PageBind(Head(S.nx)), [S EXCEPT !.nx = Tail(@)]) EXCEPT !.nx = S.nx])
RunSec(t, c, j, a, S) ==
  LET s == SecOf(t, j)
      n == Ns(t)
      \* run the body in a fresh buffer: own token, then the items
      \* (the body may read the context name u; when the render left u out -- S.hasu = FALSE -- the look-up fails: needi.
      \* needu = needi, plus what the code adds: under strict_undefined the names read by the cached blocks placed in this
      \* body are looked up when THIS function starts)
      hoist == W[t].strict /\ "block-names-hoisted" \in AsCoded
               /\ \E i \in DOMAIN s.items : s.items[i].how = "call" /\ SecOf(t, s.items[i].sec).kind \in {"nblock", "ablock"}
                                             /\ SecOf(t, s.items[i].sec).cached /\ SecOf(t, s.items[i].sec).reads
      Body(S0) == RunItems(t, c, s.items, 1,
                           [S0 EXCEPT !.ex[t][j] = @ + 1,
                                      !.needi = @ \/ (s.reads /\ ~S0.hasu), !.needu = @ \/ ((s.reads \/ hoist) /\ ~S0.hasu),
                                      !.out = <<Tok(s.name, S0.ex[t][j] + 1, c, a, t)>>
                                              \o (IF s.reads THEN <<Tok("u", 0, IF S0.hasu THEN "ann" ELSE "", <<>>, 0)>> ELSE <<>>)])
  IN IF ~s.cached
     THEN LET S1 == Body(S) IN [S1 EXCEPT !.out = S.out \o Uncached(t, s, S1.out)]
     ELSE IF ~enabled[t]                                       \* _ctx_get_or_create: return creation_function()
     THEN LET S1 == Body(S)
              em == Post(t, s, Inner(s, S1.out))
          IN [S1 EXCEPT !.out = S.out \o em,
                        !.served = Append(@, [t |-> t, sec |-> j, hit |-> FALSE, exec |-> TRUE, em |-> em,
                                              ref |-> Uncached(t, s, S1.out), owner |-> t, own |-> TRUE])]
     ELSE LET k  == KeyOf(s, c, a)
              g  == CacheKw(t, S.rg[t], DefName(s), SecKw(t, s), TRUE, FALSE)
              S0 == [S EXCEPT !.rg[t] = g.rg,
                              !.calls = Append(@, [op |-> "goc", ns |-> n, key |-> k, kw |-> g.kw, t |-> t, sec |-> j, byInv |-> g.byInv])]
          IN IF k \in DOMAIN S0.st[n]
             THEN LET e  == S0.st[n][k]
                      em == Post(t, s, e.val)
                  IN [S0 EXCEPT !.out = S.out \o em,
                                !.served = Append(@, [t |-> t, sec |-> j, hit |-> TRUE, exec |-> FALSE, em |-> em, ref |-> e.ref,
                                                      owner |-> e.owner, own |-> e.owner = t /\ e.sec = j /\ e.by = "sec"])]
             ELSE LET S1 == Body(S0)
                      v  == Inner(s, S1.out)
                      em == Post(t, s, v)
                      e  == [val |-> v, ref |-> Uncached(t, s, S1.out), owner |-> t, sec |-> j, by |-> "sec"]
                  IN [S1 EXCEPT !.st[n] = (k :> e) @@ @,
                                !.rn[n] = (k :> (IF k \in DOMAIN S1.rn[n] THEN S1.rn[n][k] + 1 ELSE 1)) @@ @,
                                !.out = S.out \o em,
                                !.served = Append(@, [t |-> t, sec |-> j, hit |-> FALSE, exec |-> TRUE, em |-> em,
                                                      ref |-> e.ref, owner |-> t, own |-> TRUE])]

Init == /\ pg \in DOMAIN Progs
        /\ store = [n \in NsSet |-> Empty] /\ runs = [n \in NsSet |-> Empty]
        /\ regions = [t \in T |-> Empty] /\ enabled = [t \in T |-> W[t].en0]
        /\ execs = [t \in T |-> [j \in 0..NSec(t) |-> 0]]
        /\ nset = 0 /\ last = [op |-> "init"]

\* h = whether the render's context provides the name u
Rendered(t, c, h) ==
  LET ch == Chain(t)
      S0 == [st |-> store, rn |-> runs, ex |-> execs, rg |-> regions, calls |-> <<>>, served |-> <<>>, out |-> <<>>,
             nx |-> Tail(ch), hasu |-> h, needu |-> FALSE, needi |-> FALSE]
  IN RunSec(Head(ch), c, 0, PageBind(Head(ch)), S0)
\* a render without u in which a look-up of u is due (needu) raises NameError; its partial effects are not modelled: the
\* history ends there (Alive)
Render(t, c, h) ==
  /\ "render" \in Ops
  /\ ~W[t].isbase
  /\ LET S1 == Rendered(t, c, h)
     IN IF S1.needu
        THEN /\ last' = [op |-> "raised", t |-> t, c |-> c, h |-> h, needi |-> S1.needi]
             /\ UNCHANGED <<store, runs, regions, execs>>
        ELSE /\ store' = S1.st /\ runs' = S1.rn /\ execs' = S1.ex /\ regions' = S1.rg
             /\ last' = [op |-> "render", t |-> t, c |-> c, h |-> h, out |-> S1.out, calls |-> S1.calls, served |-> S1.served]
  /\ UNCHANGED <<pg, enabled, nset>>
\* leaving u out only matters where some body reads it
AnyReads == \E t \in T : \E j \in 0..NSec(t) : SecOf(t, j).reads
Alive == last.op # "raised"
\* template.get_def(name).render(x=a, ...): a DefTemplate runs the top-level def alone, with the parent's cache
RenderDef(t, j, a, c) ==
  /\ "renderdef" \in Ops
  /\ W[t].secs[j].kind = "def"
  /\ ~W[t].secs[j].buf      \* DefTemplate.render() drops what a buffered def RETURNS, cached or not: not a caching matter
  /\ \A i \in DOMAIN W[t].secs[j].sig : W[t].secs[j].sig[i].k \notin {"kwo", "kw"}    \* render(**data) feeds named parameters only
  /\ LET S0 == [st |-> store, rn |-> runs, ex |-> execs, rg |-> regions, calls |-> <<>>, served |-> <<>>, out |-> <<>>,
                nx |-> <<>>, hasu |-> TRUE, needu |-> FALSE, needi |-> FALSE]
         sg == W[t].secs[j].sig
         np == Cardinality({i \in DOMAIN sg : sg[i].k = "pos"})
         S1 == RunSec(t, c, j, Bind(sg, <<>>, [i \in 1..np |-> <<sg[i].n, a>>], c), S0)     \* required parameters by keyword
     IN /\ store' = S1.st /\ runs' = S1.rn /\ execs' = S1.ex /\ regions' = S1.rg
        /\ last' = [op |-> "renderdef", t |-> t, name |-> W[t].secs[j].name, arg |-> a, c |-> c, out |-> S1.out,
                    calls |-> S1.calls, served |-> S1.served]
  /\ UNCHANGED <<pg, enabled, nset>>

\* Cache.invalidate(key, __M_defname=dn): invalidate_body / invalidate_def / invalidate_closure
InvNamed(op, t, name, k, dn) ==
  LET n == Ns(t)
      g == CacheKw(t, regions[t], dn, Empty, FALSE, TRUE)
  IN /\ store' = [store EXCEPT ![n] = Without(@, k)] /\ runs' = [runs EXCEPT ![n] = Without(@, k)]
     /\ regions' = [regions EXCEPT ![t] = g.rg]
     /\ last' = [op |-> op, t |-> t, name |-> name, calls |-> <<[op |-> "inv", ns |-> n, key |-> k, kw |-> g.kw]>>]
     /\ UNCHANGED <<pg, enabled, execs, nset>>
InvalidateBody(t) == "invbody" \in Ops /\ InvNamed("invbody", t, "body", <<"render_", "body">>, <<"render_", "body">>)
InvalidateDef(t, name) == "invdef" \in Ops /\ InvNamed("invdef", t, name, <<"render_", name>>, <<"render_", name>>)
InvalidateClosure(t, name) == "invclosure" \in Ops /\ InvNamed("invclosure", t, name, <<"", name>>, <<"", name>>)
\* Cache.invalidate(key), cache.set(key, value), cache.get(key): no __M_defname, no regions
Invalidate(t, k, x) ==
  /\ "inv" \in Ops
  /\ store' = [store EXCEPT ![Ns(t)] = Without(@, k)] /\ runs' = [runs EXCEPT ![Ns(t)] = Without(@, k)]
  /\ last' = [op |-> "inv", t |-> t, key |-> k, x |-> x, calls |-> <<[op |-> "inv", ns |-> Ns(t), key |-> k, kw |-> PlainKw(t, x)]>>]
  /\ UNCHANGED <<pg, regions, enabled, execs, nset>>
Set(t, k, x) ==
  /\ "set" \in Ops
  /\ LET v == <<Tok("set", nset + 1, "", <<>>, 0)>>
     IN store' = [store EXCEPT ![Ns(t)] = (k :> [val |-> v, ref |-> v, owner |-> t, sec |-> 0, by |-> "set"]) @@ @]
  /\ nset' = nset + 1
  /\ last' = [op |-> "set", t |-> t, key |-> k, x |-> x, n |-> nset + 1,
               calls |-> <<[op |-> "set", ns |-> Ns(t), key |-> k, kw |-> PlainKw(t, x)]>>]
  /\ UNCHANGED <<pg, runs, regions, enabled, execs>>
Get(t, k, x) ==
  /\ "get" \in Ops
  /\ LET found == k \in DOMAIN store[Ns(t)]
     IN last' = [op |-> "get", t |-> t, key |-> k, x |-> x, found |-> found,
                 res |-> IF found THEN store[Ns(t)][k].val ELSE <<>>,
                 owner |-> IF found THEN store[Ns(t)][k].owner ELSE t,
                 calls |-> <<[op |-> "get", ns |-> Ns(t), key |-> k, kw |-> PlainKw(t, x)]>>]
  /\ UNCHANGED <<pg, store, runs, regions, enabled, execs, nset>>
ToggleEnabled(t) ==
  /\ "toggle" \in Ops
  /\ enabled' = [enabled EXCEPT ![t] = ~@]
  /\ last' = [op |-> "toggle", t |-> t, en |-> ~enabled[t], calls |-> <<>>]
  /\ UNCHANGED <<pg, store, runs, regions, execs, nset>>

\* names and keys the operations range over
NamesOf(t, kinds) == {W[t].secs[j].name : j \in {i \in 1..NSec(t) : W[t].secs[i].kind \in kinds /\ W[t].secs[i].cached}}
ArgVals == {"A", "B", "D2"} \cup CtxVals      \* a sample of argument values for the keys of get/set/invalidate
KeysOf(t) == UNION {LET s == SecOf(t, j) IN
                      IF ~s.cached THEN {}
                      ELSE IF s.key = "static" THEN {DefName(s)}
                      ELSE IF s.key = "ctx" THEN {<<s.pfx, c>> : c \in CtxVals}
                      ELSE IF s.key = "arg" THEN {<<s.pfx, a>> : a \in ArgVals}
                      ELSE IF s.key = "argctx" THEN {<<s.pfx, a, c>> : a \in ArgVals, c \in CtxVals}
                      ELSE IF s.key = "lit" THEN {<<s.pfx, "lit">>}
                      ELSE {<<s.pfx, "m">>} : j \in 0..NSec(t)}
\* (Alive is a conjunct of every action, not of Next: TLC's simulator picks a random ACTION and computes only its successors)
DoRender == Alive /\ \E t \in T, c \in CtxVals, h \in (IF AnyReads THEN BOOLEAN ELSE {TRUE}) : Render(t, c, h)
DoInvBody == Alive /\ \E t \in T : W[t].page.cached /\ InvalidateBody(t)
DoInvDef == Alive /\ \E t \in T : \E n \in NamesOf(t, {"def", "nblock"}) : InvalidateDef(t, n)
DoInvClosure == Alive /\ \E t \in T : \E n \in NamesOf(t, {"ndef", "ablock"}) : InvalidateClosure(t, n)
DoRenderDef == Alive /\ \E t \in T : \E j \in 1..NSec(t), a \in {"A", "B"}, c \in CtxVals : RenderDef(t, j, a, c)
DoInvalidate == Alive /\ \E t \in T : \E k \in KeysOf(t), x \in XVals : Invalidate(t, k, x)
DoSet == Alive /\ \E t \in T : \E k \in KeysOf(t), x \in XVals : Set(t, k, x)
DoGet == Alive /\ \E t \in T : \E k \in KeysOf(t), x \in XVals : Get(t, k, x)
DoToggle == Alive /\ \E t \in T : ToggleEnabled(t)
Next == DoRender \/ DoRenderDef \/ DoInvBody \/ DoInvDef \/ DoInvClosure \/ DoInvalidate \/ DoSet \/ DoGet \/ DoToggle
Spec == Init /\ [][Next]_vars

(* ---------------- the property (C17) ---------------- *)
Range(f) == {f[i] : i \in DOMAIN f}
IsRender == last.op \in {"render", "renderdef"}
\* a body is executed only when the backend has no value for its key: between two invalidations of a
\* key at most one execution creates it
AtMostOncePerKey == \A n \in NsSet : \A k \in DOMAIN runs[n] : runs[n][k] <= 1
\* ... and a served section was executed exactly when it missed (or caching is off)
ExecIffMiss == IsRender => \A r \in Range(last.served) : r.exec = ~r.hit
\* every render shows, for a cached section, what an uncached render produced when the entry was created
ReplayExact == IsRender => \A r \in Range(last.served) : r.own => r.em = r.ref
\* cache_enabled = False: every cached section reached is executed (and the backend is not consulted)
DisabledExecutesAlways == IsRender => /\ \A r \in Range(last.served) : ~enabled[r.t] => r.exec
                                      /\ \A cl \in Range(last.calls) : enabled[cl.t]
\* the backend receives template args < page args < section args, timeout as int, context on request
ArgsPrecedence == IsRender => \A cl \in Range(last.calls) : cl.kw = Expected(cl.t, SecOf(cl.t, cl.sec))
\* entries of one template are never served to another
Isolation == /\ IsRender => \A r \in Range(last.served) : r.hit => r.owner = r.t
             /\ (last.op = "get" /\ last.found) => last.owner = last.t

\* the names a cached body reads are looked up only when the body runs: a render that leaves such a name out fails only
\* if some body reading it is executed (a miss, caching off, or an uncached section)
NamesOnlyOnMiss == last.op = "raised" => last.needi
HoistPossible == \E t \in T : W[t].strict /\ \E j \in 1..NSec(t) : W[t].secs[j].kind \in {"nblock", "ablock"}
                                                                   /\ W[t].secs[j].cached /\ W[t].secs[j].reads
NamesOnlyOnMissW == last.op = "raised" => (last.needi \/ HoistPossible)

\* the same, excusing exactly the recorded deviations of the code (used where the model follows the code)
InlineBF(t, j) == LET s == SecOf(t, j) IN ~TopLevel(s) /\ s.buf /\ W[t].bf
ReplayExactW == IsRender => \A r \in Range(last.served) : r.own => (r.em = r.ref \/ InlineBF(r.t, r.sec))
ArgsPrecedenceW == IsRender => \A cl \in Range(last.calls) : (cl.kw = Expected(cl.t, SecOf(cl.t, cl.sec)) \/ cl.byInv)
Collide(a, b) == a # b /\ W[a].uri # W[b].uri /\ Sanitise(W[a].uri) = Sanitise(W[b].uri)
IsolationW == /\ IsRender => \A r \in Range(last.served) : r.hit => (r.owner = r.t \/ Collide(r.owner, r.t))
              /\ (last.op = "get" /\ last.found) => (last.owner = last.t \/ Collide(last.owner, last.t))
=============================================================================
