------------------------------- MODULE Layout -------------------------------
(***************************************************************************)
(* Pure geometry of a template that is a sequence `t` of indices into a    *)
(* catalog `cat` whose entries have a field `w` = widths of the physical   *)
(* lines of the entry's text (Len(w)-1 line terminators; the last element  *)
(* is what stands after the last terminator).  Shared by Lines.tla,        *)
(* LineMap.tla and Extract.tla.  Lines and columns are 1-based, as         *)
(* mako.lexer.Lexer counts them (matched_lineno / matched_charpos).        *)
(***************************************************************************)
EXTENDS Naturals, Sequences
L_NLs(cat, e)   == Len(cat[e].w) - 1
L_LastW(cat, e) == cat[e].w[Len(cat[e].w)]
RECURSIVE L_SumNL(_, _, _)
L_SumNL(cat, t, n) == IF n = 0 THEN 0 ELSE L_SumNL(cat, t, n - 1) + L_NLs(cat, t[n])
RECURSIVE L_ColAfter(_, _, _)        \* characters on the current line after n entries
L_ColAfter(cat, t, n) ==
  IF n = 0 THEN 0
  ELSE IF L_NLs(cat, t[n]) > 0 THEN L_LastW(cat, t[n]) ELSE L_ColAfter(cat, t, n - 1) + L_LastW(cat, t[n])
L_LineOf(cat, t, i) == 1 + L_SumNL(cat, t, i - 1)      \* line on which entry i begins
L_ColOf(cat, t, i)  == 1 + L_ColAfter(cat, t, i - 1)   \* column at which it begins
L_AtLineStart(cat, t) == L_ColAfter(cat, t, Len(t)) = 0
=============================================================================
