------------------------------ MODULE Encoding ------------------------------
(***************************************************************************)
(* Input and output encodings of a template (property C18).                *)
(*                                                                         *)
(* One behaviour = one *cell*: a template given as bytes (or as str), its  *)
(* declarations (UTF-8 BOM, magic coding comment on line 1, the            *)
(* input_encoding argument), a construction path and the output settings.  *)
(* The machine takes the steps the code takes:                             *)
(*                                                                         *)
(*   Decide   mako/lexer.py  Lexer.decode_raw_stream, choice of the codec  *)
(*            (str: nothing to decode; BOM; comment; known_encoding;       *)
(*            default utf-8; BOM contradicted by the comment raises)       *)
(*   Decode   decode_raw_stream, text.decode(parsed_encoding); failure     *)
(*            raises CompileException                                      *)
(*   Lex      Lexer.parse: the coding comment is skipped as content        *)
(*   Exec     mako/template.py _compile_text: module compiled in memory    *)
(*            from a str, nothing is re-encoded                            *)
(*   WriteModule  template.py _compile_module_file: source.encode(         *)
(*            lexer.encoding) under the coding comment written by          *)
(*            codegen.py write_toplevel (generate_magic_comment)           *)
(*   Import   compat.load_module: Python decodes the module file with the  *)
(*            codec its coding comment names                               *)
(*   NewProcess   a later process: nothing in memory survives, the module  *)
(*            file does and is imported again without recompiling          *)
(*   Source   template.py ModuleInfo.source: the bytes of the template     *)
(*            decoded with module._source_encoding                         *)
(*   RenderU / Render   mako/runtime.py _render with FastEncodingBuffer    *)
(*            (util.py): render_unicode joins; render joins and encodes    *)
(*            with output_encoding / encoding_errors when one is set       *)
(*                                                                         *)
(* Codecs are abstract.  A template body is a sequence of *symbols* (one   *)
(* representative character each; a symbol may also stand for the          *)
(* mojibake string that decoding a character's bytes with a foreign codec  *)
(* yields).  The tables are generated from CPython's codecs (trusted base) *)
(* by harness/c18.py:                                                      *)
(*   EncT[codec][sym]  = the bytes (as a hex string) or "none"             *)
(*   DecT[codec][hex]  = the symbol those bytes decode to, or "fail"       *)
(*   EncE[codec][errors][sym] = bytes of sym.encode(codec, errors) | "exc" *)
(*   (output codecs are arbitrary: also BOM-emitting and non-ASCII-        *)
(*   compatible ones; Prefix[codec] is the BOM; "skT"/"skB" are the ASCII  *)
(*   pieces of the rendered document)                                      *)
(* Codec names are identifier-safe strings here ("utf_8" stands for the    *)
(* spelling "utf-8", "utf8" for an alias spelling of it).                  *)
(* Decoding is compositional over symbols because every non-ASCII symbol   *)
(* of a generated template is followed by a byte below 0x40, which no      *)
(* multi-byte codec of the set accepts as a trail byte.                    *)
(***************************************************************************)
EXTENDS Naturals, Sequences, FiniteSets, TLC
CONSTANTS Codecs,      \* spellings of codec names usable in comment / input_encoding / output_encoding
          Canon,       \* spelling -> canonical codec (row of the tables); "utf8" is an alias of "utf_8"
          EncT, DecT, EncE,
          JunkT,       \* codec -> junk byte string -> what follows it -> the symbol it decodes to there, or "fail"
          Prefix,      \* output codec -> what it emits before the first character (a BOM), "h" when nothing
          Cells,       \* the set of cells to run
          Emit         \* print the expected observations of every finished cell
VARIABLES cell, pc, enc, res, text, content, modfile, loaded, src, uni, out
vars == <<cell, pc, enc, res, text, content, modfile, loaded, src, uni, out>>

None == "none"
NoMod == [coding |-> None, lits |-> <<>>, lines |-> <<>>]
\* The head of a generated module file, line by line, as codegen.py write_toplevel lays it out for the Template
\* options of the cell (cell.opt): the coding comment, then the `from __future__ import` line (future_imports), then
\* statements (the mako imports, `imports=[...]`, the <%! %> code, ...).  Options that only change later statements
\* (enable_loop, strict_undefined, default_filters, imports, a <%! %> block, a preprocessor) leave the head alone.
HasFuture(c) == c.opt \in {"future1", "future2", "combo"}
Lines(c) == <<"coding">> \o (IF HasFuture(c) THEN <<"future">> ELSE <<>>) \o <<"stmt">>
\* Python (PEP 263) honours a coding comment on line 1, or on line 2 when line 1 is blank or a comment -- never after a
\* statement; otherwise the file is read as UTF-8
Honoured(lines) == \/ (Len(lines) >= 1 /\ lines[1] = "coding")
                   \/ (Len(lines) >= 2 /\ lines[2] = "coding" /\ lines[1] \in {"comment", "blank"})
Idx == 1..Len(cell.c)
\* the body of the template as given: for bytes, each character encoded with the codec the author used
Given(c) == [i \in 1..Len(c.c) |-> EncT[c.x][c.c[i]]]
DecodeWith(codec, hexes) == LET tab == DecT[Canon[codec]] IN [i \in 1..Len(hexes) |-> tab[hexes[i]]]
Fails(syms) == \E i \in 1..Len(syms) : syms[i] = "fail"
\* A cell may carry one possibly undecodable byte string (cell.bj: a byte invalid in some codecs, a truncated multi-byte
\* sequence, an overlong / illegal utf-8 sequence, a lone trail byte) at a position (cell.bp: the first bytes of the input,
\* inside the magic comment line, the middle of a line, the last bytes of a line before LF / CRLF, the very end of the
\* input).  What it decodes to depends on the codec and on what follows it.  text-decode is of the WHOLE input: it
\* fails when any part fails.
HasJunk(c) == c.bj # None
Foll(pos) == IF pos \in {"start", "aftercomment", "incomment", "middle"} THEN "sp" ELSE IF pos = "eol_lf" THEN "lf"
             ELSE IF pos = "eol_crlf" THEN "crlf" ELSE "eof"
DecodeAll(codec, c) == DecodeWith(codec, Given(c)) \o
                       (IF HasJunk(c) THEN <<JunkT[Canon[codec]][c.bj][Foll(c.bp)]>> ELSE <<>>)
\* the content of the template: the magic comment line (and what stands in it) is not content
ContentOf(c, t) == IF HasJunk(c) /\ c.bp = "incomment" THEN SubSeq(t, 1, Len(c.c)) ELSE t

InitRest == /\ pc = "decide" /\ enc = None /\ res = "ok"
            /\ text = <<>> /\ content = <<>> /\ modfile = NoMod /\ loaded = <<>> /\ src = <<>> /\ uni = <<>>
            /\ out = [ty |-> None, pre |-> "h", v |-> <<>>]
Init == cell \in Cells /\ InitRest

(* ---------------- Lexer.decode_raw_stream ---------------- *)
\* The ENTRY through which the template comes in (cell.ent) and where the encoding options were given:
\*   "direct"        Template(text=bytes | filename=..., input_encoding=..., output_encoding=..., ...)
\*   "lookup"        TemplateLookup(dirs, <the options>).get_template(uri)         (lookup.py _load: **template_args)
\*   "put_string"    TemplateLookup(<the options>).put_string(uri, bytes | str)    (lookup.py put_string: **template_args)
\*   "put_template"  a Template built with the options, placed with put_template() into a lookup that has OTHER options
\* Whichever it is, the input_encoding that reaches Lexer(..., input_encoding=) -- known_encoding in decode_raw_stream --
\* is the one that was configured for this template, and so for output_encoding / encoding_errors at render time.
Handed(c) == c.ie
Decide ==
  /\ pc = "decide"
  /\ UNCHANGED <<cell, content, modfile, loaded, src, uni, out>>
  /\ IF cell.form = "str"
     THEN \* isinstance(text, str): nothing is decoded; the encoding is only remembered
          /\ enc' = (IF cell.cm # None THEN cell.cm ELSE IF Handed(cell) # None THEN Handed(cell) ELSE "utf_8")
          /\ text' = cell.c /\ res' = res /\ pc' = "lex"
     ELSE IF cell.bom
     THEN IF cell.cm # None /\ cell.cm # "utf_8"
          THEN \* a comment that contradicts the BOM raises.  A comment naming utf-8 by an alias
               \* spelling does not contradict it; what happens then is not specified: both accepted
               \/ /\ res' = "CompileException" /\ pc' = "raised" /\ UNCHANGED <<enc, text>>
               \/ /\ Canon[cell.cm] = "utf_8"
                  /\ enc' = "utf_8" /\ pc' = "decode" /\ UNCHANGED <<res, text>>
          ELSE /\ enc' = "utf_8" /\ pc' = "decode" /\ UNCHANGED <<res, text>>
     ELSE /\ enc' = (IF cell.cm # None THEN cell.cm ELSE IF Handed(cell) # None THEN Handed(cell) ELSE "utf_8")
          /\ pc' = "decode" /\ UNCHANGED <<res, text>>
Decode ==
  /\ pc = "decode"
  /\ UNCHANGED <<cell, enc, content, modfile, loaded, src, uni, out>>
  /\ LET t == DecodeAll(enc, cell) IN
     IF Fails(t) THEN /\ res' = "CompileException" /\ pc' = "raised" /\ UNCHANGED text
                 ELSE /\ text' = t /\ pc' = "lex" /\ UNCHANGED res
\* Lexer.parse: match_reg(_coding_re) moves past the comment; the body is the content
Lex ==
  /\ pc = "lex" /\ content' = (IF cell.form = "str" THEN text ELSE ContentOf(cell, text))
  /\ pc' = (IF cell.path \in {"moddir", "reload"} THEN "write" ELSE "exec")
  /\ UNCHANGED <<cell, enc, res, text, modfile, loaded, src, uni, out>>

(* ---------------- construction paths ---------------- *)
\* in memory: the generated module is a str handed to compile(); literals are the content
Exec ==
  /\ pc = "exec" /\ loaded' = content /\ pc' = "source"
  /\ UNCHANGED <<cell, enc, res, text, content, modfile, src, uni, out>>
\* module file: the source is encoded with lexer.encoding and carries that coding comment
WriteModule ==
  /\ pc = "write"
  /\ UNCHANGED <<cell, enc, text, content, loaded, src, uni, out>>
  /\ LET lits == [i \in 1..Len(content) |-> EncT[Canon[enc]][content[i]]] IN
     IF \E i \in 1..Len(lits) : lits[i] = None
     THEN /\ res' = "exc:UnicodeEncodeError" /\ pc' = "raised" /\ UNCHANGED modfile
     ELSE /\ modfile' = [coding |-> enc, lits |-> lits, lines |-> Lines(cell)] /\ pc' = "import" /\ UNCHANGED res
\* the import system decodes the file with the codec of ITS coding comment
Import ==
  /\ pc \in {"import", "import2"}
  /\ UNCHANGED <<cell, enc, text, content, modfile, src, uni, out>>
  /\ LET l == DecodeWith(IF Honoured(modfile.lines) THEN modfile.coding ELSE "utf_8", modfile.lits) IN
     IF Fails(l) THEN /\ res' = "exc:SyntaxError" /\ pc' = "raised" /\ UNCHANGED loaded
     ELSE /\ loaded' = l /\ UNCHANGED res
          /\ pc' = (IF cell.path = "reload" /\ pc = "import" THEN "newproc" ELSE "source")
\* a later process: only the files survive
NewProcess ==
  /\ pc = "newproc" /\ loaded' = <<>> /\ text' = <<>> /\ content' = <<>> /\ pc' = "import2"
  /\ UNCHANGED <<cell, enc, res, modfile, src, uni, out>>
\* ModuleInfo.source: the template's bytes decoded with module._source_encoding (a str is itself)
Source ==
  /\ pc = "source" /\ pc' = "renderu"
  /\ src' = (IF cell.form = "str" THEN cell.c ELSE DecodeAll(enc, cell))
  /\ UNCHANGED <<cell, enc, res, text, content, modfile, loaded, uni, out>>

(* ---------------- runtime._render ---------------- *)
RenderU ==   \* as_unicode: FastEncodingBuffer() without encoding
  /\ pc = "renderu" /\ uni' = loaded /\ pc' = "render"
  /\ UNCHANGED <<cell, enc, res, text, content, modfile, loaded, src, out>>
\* The rendered document of a generated template: fixed ASCII pieces around the two characters.  getvalue() joins
\* the writes and encodes the WHOLE string once: the codec's prefix (a BOM for utf-8-sig / utf-16 / utf-32) and then
\* every piece -- the ASCII pieces too, which an output codec need not map to the ASCII bytes (utf-16, cp037, ...).
Whole(syms) == <<"skT", syms[1], "skB", syms[2], "skB", syms[1], "skB", syms[2], "skB">>
EncodeOut(codec, errs, syms) ==
  LET w == Whole(syms)
      tab == EncE[Canon[codec]][errs]          \* (bound once: the table is looked up a single time per document)
      b == [i \in 1..Len(w) |-> tab[w[i]]] IN
  IF \E i \in 1..Len(b) : b[i] = "exc" THEN [ty |-> "exc", pre |-> "h", v |-> <<"UnicodeEncodeError">>]
  ELSE [ty |-> "bytes", pre |-> Prefix[Canon[codec]], v |-> b]
Render ==    \* FastEncodingBuffer(encoding=output_encoding, errors=encoding_errors).getvalue()
  /\ pc = "render" /\ pc' = "done"
  /\ out' = (IF cell.oe = None THEN [ty |-> "str", pre |-> "h", v |-> loaded] ELSE EncodeOut(cell.oe, cell.errs, loaded))
  /\ UNCHANGED <<cell, enc, res, text, content, modfile, loaded, src, uni>>

Observation == [id |-> cell.id, res |-> res, enc |-> (IF enc = None THEN None ELSE Canon[enc]),
                coding |-> (IF modfile.coding = None THEN None ELSE Canon[modfile.coding]),
                uni |-> uni, src |-> src, out |-> out]
Finished == pc \in {"done", "raised"}
Next == Decide \/ Decode \/ Lex \/ Exec \/ WriteModule \/ Import \/ NewProcess \/ Source \/ RenderU \/ Render
Spec == Init /\ [][Next]_vars

(* ---------------- the property (C18), stated on the cell alone ---------------- *)
IsBytes(c) == c.form = "bytes"
\* the declared encoding: BOM => UTF-8; else the comment; else input_encoding; else UTF-8
Declared(c) == IF IsBytes(c) /\ c.bom THEN "utf_8"
               ELSE IF c.cm # None THEN c.cm ELSE IF c.ie # None THEN c.ie ELSE "utf_8"
Contradicted(c) == IsBytes(c) /\ c.bom /\ c.cm # None /\ Canon[c.cm] # "utf_8"
AliasCorner(c)  == IsBytes(c) /\ c.bom /\ c.cm # None /\ c.cm # "utf_8" /\ Canon[c.cm] = "utf_8"
DecodedText(c) == IF IsBytes(c) THEN DecodeAll(Declared(c), c) ELSE c.c
DecodedContent(c) == IF IsBytes(c) THEN ContentOf(c, DecodedText(c)) ELSE c.c
Undecodable(c) == IsBytes(c) /\ Fails(DecodedText(c))

Precedence == (enc # None) => Canon[enc] = Canon[Declared(cell)]
\* A coding declaration counts on the FIRST line of the input only (Lexer.decode_raw_stream matches the magic-comment
\* regexp at offset 0; Mako documents the first line).  A cell may carry, below line 1, a line that merely looks like one
\* (cell.dp: on line 2, on line 3, mid-file, inside <%text>, inside a ## comment, inside <%doc>, inside a Python string
\* literal) naming a codec cell.dc -- a foreign one or even the true one.  Such a line is template content (or a comment)
\* like any other: Declared(c) does not look at it, and neither may the machine.
HasDecoy(c) == c.dp # None
DecoysIgnored == (HasDecoy(cell) /\ enc # None) =>
                    Canon[enc] = (IF IsBytes(cell) /\ cell.bom THEN "utf_8"
                                  ELSE IF cell.cm # None THEN Canon[cell.cm] ELSE IF cell.ie # None THEN Canon[cell.ie] ELSE "utf_8")
\* CompileException exactly for contradicted BOMs and undecodable input (alias corner: either), nothing else raises
ErrorsExact == /\ (pc = "raised") => (res = "CompileException" /\ (Contradicted(cell) \/ AliasCorner(cell) \/ Undecodable(cell)))
               /\ (pc = "done") => (res = "ok" /\ ~Contradicted(cell) /\ ~Undecodable(cell))
\* on every path the module's literals and Template.source are the decoded text
SameTemplateAsDecodedText ==
  /\ (pc \in {"source", "renderu", "render", "done"}) => loaded = DecodedContent(cell)
  /\ (pc \in {"renderu", "render", "done"}) => src = DecodedText(cell)
  /\ (pc \in {"import", "import2", "newproc"}) => (Canon[modfile.coding] = Canon[Declared(cell)] /\ Honoured(modfile.lines))
RenderUnicodeIgnoresOutputEncoding == (pc \in {"render", "done"}) => uni = DecodedContent(cell)
RenderEncodes == (pc = "done") =>
      IF cell.oe = None THEN out = [ty |-> "str", pre |-> "h", v |-> uni]
      ELSE out = EncodeOut(cell.oe, cell.errs, uni)
=============================================================================
