---- MODULE MC_InheritBounds ----
(* Bounds of the MC_Inherit enumeration (longest chain per family); harness/c06.py overwrites this *)
(* module in its scratch copy according to the tier.                                               *)
MaxNDef == [dispatch |-> 4, attrs |-> 4, blocks |-> 4, args |-> 4, dyn |-> 3, entry |-> 3, dirs |-> 3]
====
