-------------------------- MODULE MC_RenderShared --------------------------
(* Bounded instances of RenderShared.tla: two small pages that share cells (a namespace library, an   *)
(* included file, a cached def's Cache object, the inherited base) through a collection of capacity 2. *)
EXTENDS RenderShared
MCProgs ==
  [p1 |-> << [op |-> "shared", c |-> "base"], [op |-> "emit", tok |-> "["], [op |-> "shared", c |-> "lib"], [op |-> "ctx"],
             [op |-> "push"], [op |-> "mark", n |-> 1], [op |-> "ctx"], [op |-> "shared", c |-> "inc"], [op |-> "pop"],
             [op |-> "shared", c |-> "cache"], [op |-> "emit", tok |-> "]"] >>,
   p2 |-> << [op |-> "shared", c |-> "base"], [op |-> "push"], [op |-> "shared", c |-> "inc"], [op |-> "ctx"], [op |-> "push"],
             [op |-> "emit", tok |-> "x"], [op |-> "pop"], [op |-> "pop"], [op |-> "shared", c |-> "lib"], [op |-> "ctx"] >>,
   p3 |-> << [op |-> "shared", c |-> "base"], [op |-> "push"], [op |-> "ctx"], [op |-> "pop"], [op |-> "shared", c |-> "inc"] >>]
=============================================================================
