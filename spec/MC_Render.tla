---------------------------- MODULE MC_Render ----------------------------
(* A small fixed instance of Render.tla that can be run by hand:
     tlc -config MC_Render.cfg MC_Render.tla      with a cfg of
     CONSTANTS Progs <- ProgsDef  MaxRaise = 8  Dev <- DevDef
     SPECIFICATION Spec   INVARIANT StackDiscipline ... INVARIANT Emit   CHECK_DEADLOCK FALSE
   The checks (harness/c03.py, c05.py, c13.py via harness/render_common.py) generate modules of exactly
   this shape (MCR_<batch>.tla) with hundreds of programs written as literals by the seeded grammar.
   Program 1: early `return` inside a buffered def (the property keeps "abc"; deviation ReturnDropsBuffer
   is what the code does, finding #21).  Program 2: a call with content in a loop in a try block, the
   filtered callee calling caller.body() twice, marks 1..7 as raise points (7 stands in the iterable expression of the for). *)
EXTENDS Render
ProgsDef == <<
[defs |-> [f |-> [flags |-> {"buffered"}, fm |-> 0, dec |-> FALSE, dm |-> 0, blk |-> FALSE, params |-> <<>>, body |-> <<[k |-> "text", t |-> "abc"], [k |-> "ret"], [k |-> "text", t |-> "def"]>>]], incs |-> <<>>, body |-> <<[k |-> "text", t |-> "["], [k |-> "expr", parts |-> <<[k |-> "call", d |-> "f", via |-> "name", args |-> [pos |-> <<>>, kw |-> <<>>]]>>], [k |-> "text", t |-> "]"]>>, eh |-> FALSE, fe |-> FALSE, el |-> "on"],
[defs |-> [d |-> [flags |-> {"filter"}, fm |-> 0, dec |-> FALSE, dm |-> 0, blk |-> FALSE, params |-> <<>>, body |-> <<[k |-> "text", t |-> "d1"], [k |-> "mark", m |-> 1, rl |-> FALSE, w |-> "s"], [k |-> "expr", parts |-> <<[k |-> "cbody", args |-> [pos |-> <<>>, kw |-> <<>>]], [k |-> "cbody", args |-> [pos |-> <<>>, kw |-> <<>>]]>>], [k |-> "mark", m |-> 2, rl |-> FALSE, w |-> "s"]>>]], incs |-> <<>>, body |-> <<[k |-> "try", a |-> <<[k |-> "for", n |-> 2, sized |-> TRUE, a |-> <<[k |-> "mark", m |-> 3, rl |-> TRUE, w |-> "s"], [k |-> "callc", parts |-> <<[k |-> "call", d |-> "d", via |-> "name", args |-> [pos |-> <<>>, kw |-> <<>>]]>>, body |-> <<[k |-> "text", t |-> "b"], [k |-> "mark", m |-> 4, rl |-> FALSE, w |-> "s"]>>, bparams |-> <<>>, defs |-> <<>>]>>, els |-> <<>>, im |-> [k |-> "mark", m |-> 7, rl |-> FALSE, w |-> "s"]]>>, h |-> <<[k |-> "text", t |-> "handler"], [k |-> "mark", m |-> 5, rl |-> FALSE, w |-> "s"]>>], [k |-> "mark", m |-> 6, rl |-> FALSE, w |-> "s"]>>, eh |-> FALSE, fe |-> FALSE, el |-> "on"]
>>
DevDef == {}
=============================================================================
