---------------------------- MODULE MC_MakoLexer ----------------------------
(***************************************************************************)
(* Bounded exhaustive instance of MakoLexer: one initial state per input   *)
(* string -- every string Prefix \o <<f>> \o s with f in First and s of at *)
(* most K-1 symbols over Sym (all strings of <= K symbols when First = Sym *)
(* and Prefix = <<>>), plus the hand-picked strings in Extra.  Every       *)
(* terminal state prints one JSON record: the input, the normal-form node  *)
(* list or the error, the expected output and the features met.  A string  *)
(* on which the reference lexer is nondeterministic prints one record per  *)
(* acceptable outcome.  With Routes # {} every source of <= RK symbols is  *)
(* additionally sent through every pre-lexing route (Transform action).   *)
(* The harness generates a module that EXTENDS this one and defines the    *)
(* sequence-valued constants (Prefix, Extra) for the cfg to substitute.    *)
(***************************************************************************)
EXTENDS MakoLexer, Json
CONSTANTS Sym, K, First, Prefix, Extra, WithEmpty,
          Routes,   \* pre-lexing routes (sequences of preprocessor operations); {}: only the direct route
          RK,       \* sources of <= RK symbols (and MAGIC + <= RK-1 symbols) are sent through every route
          RExtra    \* hand-picked longer sources sent through every route
Strs(n) == UNION {[1..m -> Sym] : m \in 0..n}
Inputs == {Prefix \o <<f>> \o s : f \in First, s \in Strs(K - 1)} \cup (IF WithEmpty THEN {Prefix} ELSE {}) \cup Extra
RInputs == IF Routes = {} THEN {} ELSE Strs(RK) \cup {<<"MAGIC">> \o s : s \in Strs(RK - 1)} \cup RExtra
Has(r, op) == \E i \in 1..Len(r) : r[i] = op
\* the magic comment is only stepped over at the very start of the lexed text: nothing is inserted in front of it
RouteOK(s, r) == (s # <<>> /\ s[1] = "MAGIC") => ~Has(r, "ins")
MCInit == \/ \E t \in Inputs : LexInit(t)
          \/ \E s \in RInputs : \E r \in Routes : RouteOK(s, r) /\ LexInitR(s, r)
MCSpec == MCInit /\ [][LexNext]_lvars
Record == [t |-> txt, n |-> nodes, e |-> err, o |-> ostk[1].buf, ft |-> feat, src |-> src, route |-> route]
PrintTerminal == ~(fin /\ PrintT(ToJson(Record)) /\ FALSE)
=============================================================================
