---------------------------- MODULE MC_MakoLexer ----------------------------
(***************************************************************************)
(* Bounded exhaustive instance of MakoLexer: one initial state per input   *)
(* string -- every string Prefix \o <<f>> \o s with f in First and s of at *)
(* most K-1 symbols over Sym (all strings of <= K symbols when First = Sym *)
(* and Prefix = <<>>), plus the hand-picked strings in Extra.  Every       *)
(* terminal state prints one JSON record: the input, the normal-form node  *)
(* list or the error, the expected output and the features met.  A string  *)
(* on which the reference lexer is nondeterministic prints one record per  *)
(* acceptable outcome.                                                     *)
(* The harness generates a module that EXTENDS this one and defines the    *)
(* sequence-valued constants (Prefix, Extra) for the cfg to substitute.    *)
(***************************************************************************)
EXTENDS MakoLexer, Json
CONSTANTS Sym, K, First, Prefix, Extra, WithEmpty
Strs(n) == UNION {[1..m -> Sym] : m \in 0..n}
Inputs == {Prefix \o <<f>> \o s : f \in First, s \in Strs(K - 1)} \cup (IF WithEmpty THEN {Prefix} ELSE {}) \cup Extra
MCInit == \E t \in Inputs : LexInit(t)
MCSpec == MCInit /\ [][LexNext]_lvars
Record == [t |-> txt, n |-> nodes, e |-> err, o |-> ostk[1].buf, ft |-> feat]
PrintTerminal == ~(fin /\ PrintT(ToJson(Record)) /\ FALSE)
=============================================================================
