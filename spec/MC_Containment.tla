---------------------------- MODULE MC_Containment ----------------------------
(***************************************************************************)
(* Bounded instances of Containment.tla: the world (a file tree over the   *)
(* segment alphabet with sentinel files OUTSIDE the configured roots at    *)
(* every position "..", a sibling, and a sibling whose name has the root's *)
(* name as prefix can reach), the root configurations, the calling         *)
(* templates, and the export of every terminal state as one JSON line      *)
(* (read by harness/c09.py, which builds the same tree on disk from the    *)
(* exported world and replays every request against a real TemplateLookup).*)
(*                                                                         *)
(* World ("T" is the top of the scratch tree; its parent is the model's    *)
(* file-system root, above which nothing exists):                          *)
(*   /T/sub/sub/a          root 1   (its name is a segment name, so that   *)
(*                                   "../a/x" comes back into it)          *)
(*   /T/sub/sub/a..        sibling whose name has "a" as prefix            *)
(*   /T/sub/sub/sub        sibling directory (root 2 in configuration B)   *)
(*   /T/sub/sub/..a        sentinel file next to the root                  *)
(*   /T/sub/{a,..a,a../a}, /T/{a,..a,a../a}   sentinels in the ancestors   *)
(*   /T/sub/sub/m          module_directory                                *)
(***************************************************************************)
EXTENDS Containment, Json

CONSTANT Cfg      \* "A" one root; "B" two sibling roots; "C" nested roots (inner first); "D" one root, spelled with dot
                  \* segments / trailing slash; "E" three roots: outer, the root nested in it, a sibling; "R" RELATIVE
                  \* roots (the process' working directory is the model's file-system root)

RECURSIVE Tree(_)
\* the files (relative) of a directory subtree of remaining depth d
Tree(d) == {<<"a">>, <<"..a">>, <<"a..", "a">>, <<"a..", "..a">>}
             \cup (IF d > 0 THEN {<<"sub">> \o p : p \in Tree(d - 1)} ELSE {})
Under(dir, rel) == {dir \o p : p \in rel}
P1 == <<"T", "sub", "sub">>
P2 == <<"T", "sub">>
P3 == <<"T">>
Small == {<<"a">>, <<"..a">>, <<"a..", "a">>}
WorldFiles == Under(P1 \o <<"a">>, Tree(3))                 \* inside root 1
        \cup Under(P1 \o <<"a..">>, Tree(1))                \* prefix sibling
        \cup Under(P1 \o <<"sub">>, Tree(2))                \* sibling directory
        \cup {P1 \o <<"..a">>}
        \cup Under(P2, Small) \cup Under(P3, Small)
Tok(segs) == <<"/">> \o Interleave(segs)
WorldRoots ==
  CASE Cfg = "A" -> <<Tok(P1 \o <<"a">>)>>
    [] Cfg = "B" -> <<Tok(P1 \o <<"a">>), Tok(P1 \o <<"sub">>) \o <<"/">>>>
    [] Cfg = "C" -> <<Tok(P1 \o <<"a", "sub">>), Tok(P1 \o <<"a">>)>>
    [] Cfg = "D" -> <<Tok(P1 \o <<"sub", "..", ".", "a">>) \o <<"/", "/">>>>
    [] Cfg = "E" -> <<Tok(P1 \o <<"a">>), Tok(P1 \o <<"a", "sub">>) \o <<"/">>, Tok(P1 \o <<"sub">>)>>
    [] Cfg = "R" -> <<Interleave(P1 \o <<"a">>), <<".", "/">> \o Interleave(P1 \o <<"sub">>) \o <<"/">>>>
WorldModDir == Tok(P1 \o <<"m">>) \o <<"/">>
WorldTemplFile == P1 \o <<"a", "a">>
\* calling templates (put_string'ed under these URIs): depth 0..3 below the root, plus spellings
WorldCallers ==
  [c0 |-> <<"/", "c">>,
   c1 |-> <<"/", "sub", "/", "c">>,
   c2 |-> <<"/", "sub", "/", "sub", "/", "c">>,
   c3 |-> <<"/", "sub", "/", "sub", "/", "sub", "/", "c">>,
   r0 |-> <<"c">>,                                          \* URI without leading slash
   r1 |-> <<"sub", "/", "c">>,
   d1 |-> <<"/", "sub", "/", "/", "c">>,                    \* doubled slash
   b1 |-> <<"\\", "sub", "\\", "c">>,                       \* backslashes: dirname is empty
   x1 |-> <<"/", "sub", "/", "..", "/", "a..", "/", "c">>,  \* not normalised
   t2 |-> <<"/", "sub", "/", "c", "/">>]                    \* ends in a slash

(* ---- export: one JSON line per terminal state *)
RECURSIVE Cat(_)
Cat(t) == IF t = <<>> THEN "" ELSE Head(t) \o Cat(Tail(t))
RECURSIVE PathStr(_)
PathStr(s) == IF s = <<>> THEN "" ELSE "/" \o Head(s) \o PathStr(Tail(s))
Row == [u |-> Cat(uri), c |-> ctx,
        o |-> IF res.kind = "exc" THEN "E"
              ELSE IF res.silent THEN "S" \o PathStr(res.path)
              ELSE "F" \o PathStr(res.path) \o "|" \o PathStr(res.mod)]
Emit == PrintT(ToJson(Row'))
XProbeFail == ProbeFail /\ Emit
XConstruct == Construct /\ Emit
XGrow == \E t \in Tokens : Grow(t)
XRequest == \E c \in Contexts : Request(c)
MCNext == XGrow \/ XRequest \/ Adjust \/ ProbeHit \/ ProbeNext \/ XProbeFail \/ XConstruct
MCSpec == Init /\ [][MCNext]_vars
\* the world itself, exported once
WorldRow == [world |-> [files |-> {PathStr(f) : f \in Files}, roots |-> [i \in 1..NDirs |-> Cat(Roots[i])],
                        dirs |-> [i \in 1..NDirs |-> PathStr(Dir(i).segs)],
                        moddir |-> Cat(ModDir), modroot |-> PathStr(ModRoot.segs),
                        templfile |-> PathStr(TemplFile),
                        callers |-> [c \in DOMAIN Callers |-> Cat(Callers[c])]]]
ASSUME PrintT(ToJson(WorldRow))
=============================================================================
