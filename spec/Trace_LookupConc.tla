------------------------- MODULE Trace_LookupConc -------------------------
(***************************************************************************)
(* Validates executions of real threads calling                            *)
(* mako.lookup.TemplateLookup.get_template under the deterministic         *)
(* scheduler (harness/sched.py, harness/c16.py) against LookupConc.tla.    *)
(* Every event was logged by an interposed object (collection, mutex,      *)
(* os.stat / os.path.isfile, util.read_file, time.time, Template) at the   *)
(* moment the operation was performed, while no other thread was running;  *)
(* the event order is the execution order.  One event = one label action   *)
(* of the PlusCal translation (re-used, not re-written).                   *)
(*                                                                         *)
(* One initial state per recorded trace; one JSON verdict line per trace   *)
(* {t, ok, i, clause, at, devs, findings}: a rejection names the event     *)
(* index, the failing clause and the label the thread was at.  The         *)
(* invariants of LookupConc are evaluated after every consumed event.      *)
(*                                                                         *)
(* Deviation: the code returns a second-chance hit without the freshness   *)
(* test (finding #19).  Such a step is explained by                        *)
(* Dev_SecondChanceUnchecked and the thread is remembered in `devby`; if   *)
(* FreshSinceCallStart is then violated FOR THAT THREAD the trace stays    *)
(* accepted and "FreshSinceCallStart" is put into `findings` (the harness  *)
(* reports it with a known-finding signature); a freshness violation of a  *)
(* thread that did not take the deviation step rejects the trace.          *)
(***************************************************************************)
EXTENDS LookupConc, Json, IOUtils, TLCExt
Traces == JsonDeserialize(IOEnv.TRACE_FILE)
VARIABLES tr, l, verdict, devby, findings
tvars == <<vars, tr, l, verdict, devby, findings>>
Ev == Traces[tr].events
TInit == /\ tr \in 1..Len(Traces)          \* uri and file are fixed by the trace before Init is evaluated
         /\ uri = [t \in Threads |-> Traces[tr].uri[t]]
         /\ file = [u \in Uris |-> InitFile(Traces[tr].files[u])]
         /\ Init
         /\ l = 1 /\ verdict = "run" /\ devby = {} /\ findings = {}
At(e) == IF e.th \in Threads THEN pc[e.th] ELSE ""
Report(ok, i, clause, at, dv, fnd) ==
   PrintT(ToJson([t |-> Traces[tr].id, ok |-> ok, i |-> i, clause |-> clause, at |-> at, devs |-> dv, findings |-> fnd]))
\* events of thread s strictly after position i
After(s, i) == SelectSeq(SubSeq(Ev, i + 1, Len(Ev)), LAMBDA e : e.th = s)
\* the code's way after a second-chance hit is "release, return"; the intended way is "release, stat, ..."
TakesIntendedWay(s) == LET nx == After(s, l) IN Len(nx) >= 2 /\ nx[2].ev = "stat"
InvClause(dv) ==
   IF ~MutexDiscipline' THEN "inv:MutexDiscipline"
   ELSE IF ~FirstRequestsCompileOnce' THEN "inv:FirstRequestsCompileOnce"
   ELSE IF ~CompleteObject' THEN "inv:CompleteObject"
   ELSE IF ~OnlyDocumentedExceptions' THEN "inv:OnlyDocumentedExceptions"
   ELSE IF FsChecks /\ \E x \in Threads \ dv : ~FreshOf(x)' THEN "inv:FreshSinceCallStart"
   ELSE ""
Finish(c0, dv) ==
   LET c == IF c0 # "" THEN c0 ELSE InvClause(dv)
       f == IF FsChecks /\ \E x \in dv : ~FreshOf(x)' THEN findings \cup {"FreshSinceCallStart"} ELSE findings
       names == IF dv = {} THEN {} ELSE {"SecondChanceUnchecked"}
   IN /\ l' = l + 1 /\ devby' = dv /\ findings' = f
      /\ verdict' = (IF c # "" THEN "fail" ELSE IF l + 1 > Len(Ev) THEN "ok" ELSE "run")
      /\ (c # "" => Report(FALSE, l, c, At(Ev[l]), names, f))
      /\ ((c = "" /\ l + 1 > Len(Ev)) => Report(TRUE, l, "", "", names, f))
ResKind(k) == IF k = "file" THEN "tmpl" ELSE k
FinClause(e, s) ==
   IF e.res # ResKind(res[s].kind) THEN "fin-result"
   ELSE IF e.res = "tmpl" /\ e.obj # res[s].obj THEN "fin-obj"
   ELSE IF e.res = "tmpl" /\ ~e.complete THEN "fin-CompleteObject"
   ELSE IF e.res = "tmpl" /\ e.ver # res[s].ver THEN "fin-ver"
   ELSE ""
TStep ==
  /\ verdict = "run" /\ l <= Len(Ev) /\ UNCHANGED tr
  /\ LET e == Ev[l]  s == e.th IN
     \/ /\ e.ev = "env_modify" /\ E /\ now' = now      \* E chooses file and kind: the logged ones
        /\ file'[e.u].ver = e.ver /\ (file'[e.u].st = "ok") = e.ok /\ \A v \in Uris \ {e.u} : file'[v] = file[v]
        /\ Finish(IF file'[e.u].mt = e.mt THEN "" ELSE "env-modify-mtime", devby)
     \/ /\ e.ev = "env_tick" /\ E /\ now' = now + 1 /\ Finish("", devby)
     \/ /\ e.ev = "start" /\ Start(s) /\ Finish("", devby)
     \/ /\ e.ev = "readcoll" /\ ReadColl(s) /\ Finish(IF e.hit = (coll[uri[s]].kind # "none") THEN "" ELSE "readcoll-hit", devby)
     \/ /\ e.ev = "stat" /\ Stat(s) /\ Finish(IF e.mt = file[uri[s]].mt THEN "" ELSE "stat-mt", devby)
     \/ /\ e.ev = "pop" /\ ~e.held /\ PopStale(s) /\ Finish("", devby)
     \/ /\ e.ev = "pop" /\ e.held /\ PopFail(s) /\ Finish("", devby)
     \/ /\ e.ev = "probe" /\ Probe(s) /\ Finish(IF e.found = (file[uri[s]].st # "absent") THEN "" ELSE "probe-found", devby)
     \/ /\ e.ev = "acquire" /\ e.got /\ Acquire(s) /\ Finish("", devby)
     \/ /\ e.ev = "acquire" /\ pc[s] = "Acquire" /\ (~e.got \/ mutex # "free")
        /\ UNCHANGED vars /\ Finish("acquire-not-exclusive", devby)
     \/ /\ e.ev = "second" /\ (~e.hit \/ ~FsChecks \/ TakesIntendedWay(s)) /\ Second(s)
        /\ Finish(IF e.hit = (coll[uri[s]].kind # "none") THEN "" ELSE "second-hit", devby)
     \/ /\ e.ev = "second" /\ e.hit /\ FsChecks /\ ~TakesIntendedWay(s) /\ Dev_SecondChanceUnchecked(s)
        /\ Finish("", devby \cup {s})
     \/ /\ e.ev = "readsrc" /\ ReadSrc(s)
        /\ Finish(IF e.ver = file[uri[s]].ver /\ e.ok = (file[uri[s]].st = "ok") THEN "" ELSE "readsrc-content", devby)
     \/ /\ e.ev = "stamp" /\ Stamp(s) /\ Finish(IF e.ct = now THEN "" ELSE "stamp-ct", devby)
     \/ /\ e.ev = "store" /\ Store(s)
        /\ Finish(IF e.obj # coll'[uri[s]].obj THEN "store-obj" ELSE IF ~e.complete THEN "store-CompleteObject" ELSE "", devby)
     \/ /\ e.ev = "release" /\ pc[s] = "RelHit" /\ RelHit(s) /\ Finish(IF e.owner = s THEN "" ELSE "release-not-owner", devby)
     \/ /\ e.ev = "release" /\ pc[s] # "RelHit" /\ Release(s) /\ Finish(IF e.owner = s THEN "" ELSE "release-not-owner", devby)
     \/ /\ e.ev = "fin" /\ Fin(s) /\ Finish(FinClause(e, s), devby)
     \/ /\ e.ev = "fin" /\ pc[s] \in Held /\ mutex = s        \* the call returned / raised without releasing the mutex
        /\ UNCHANGED vars /\ Finish("MutexDiscipline:returned-holding-mutex", devby)
     \/ /\ e.ev = "end" /\ UNCHANGED vars
        /\ Finish(IF e.status # "ok" THEN "NoThreadBlocked"
                  ELSE IF ~AllDone THEN "end-before-all-returned"
                  ELSE IF e.mutex # "free" \/ mutex # "free" THEN "MutexDiscipline:held-at-end"   \* observed lock / model lock
                  ELSE "", devby)
\* an event whose action is not enabled (the thread is at another label than the event says)
TStuck ==
  /\ verdict = "run" /\ l <= Len(Ev) /\ ~ENABLED TStep
  /\ verdict' = "fail"
  /\ Report(FALSE, l, "not-enabled", At(Ev[l]), IF devby = {} THEN {} ELSE {"SecondChanceUnchecked"}, findings)
  /\ UNCHANGED <<vars, tr, l, devby, findings>>
TNext == TStep \/ TStuck
TSpec == TInit /\ [][TNext]_tvars
=============================================================================
