------------------------------ MODULE MakoLexer ------------------------------
(***************************************************************************)
(* Symbol-level REFERENCE LEXER for Mako templates (property C01, and the  *)
(* ${...} scanner of C02).                                                 *)
(*                                                                         *)
(* Mirrors the matcher cascade of mako/lexer.py, Lexer.parse(): one action *)
(* per matcher, tried in the same order --                                 *)
(*   MatchEnd, MatchExpression (match_expression + parse_until_text),      *)
(*   MatchControlLine / MatchLineComment (match_control_line),             *)
(*   MatchDocComment (match_comment), MatchTagStart (match_tag_start incl. *)
(*   the verbatim <%text> body), MatchTagEnd (match_tag_end),              *)
(*   MatchPythonBlock (match_python_block), MatchPercent (match_percent),  *)
(*   MatchContinuation / MatchText (match_text)                            *)
(* -- but each rule is written from the DOCUMENTED lexical rule            *)
(* (doc/build/syntax.rst; DESIGN.md Appendix A), not from the regexes:     *)
(* line start = position 1 or the previous symbol is a newline; a          *)
(* line-leading %% yields %; backslash + newline is consumed; ## lines and *)
(* <%doc> vanish with their terminator; <%text> bodies are verbatim;       *)
(* ${ } and <% %> bodies are delimited by the Python-lexical scanner       *)
(* `Scan` (brackets, ' " ''' """ strings with escapes, # comments).        *)
(*                                                                         *)
(* Text is a sequence of SYMBOLS (strings):                                *)
(*   w u        ASCII / non-ASCII word filler        o   other filler      *)
(*   sp tb      blanks     nl  newline (LF or CRLF)  cr  a lone CR         *)
(*   pc % hs # dl $ lb { rb } lt < gt > sl / bs \ pp | ex ! dq " sq '      *)
(*   lp ( rp ) ls [ rs ] cm ,  TX DC DF BK  the words text doc def block    *)
(*   DEF DE2 BLK  whole well-formed tag heads <%def name="f()"> / <%block>  *)
(*   o          any other filler: neither word nor white space (ZWNBSP/BOM, *)
(*              ZWSP, NUL, a combining mark, a non-BMP symbol, ~ ...)      *)
(*   v          exotic white space (VT FF NEL NBSP LS PS): white space in a *)
(*              tag head and before a line-leading %%, plain text elsewhere *)
(*   IFT IFF FOR EIF EFR  whole control-line bodies `if True:` `if False:` *)
(*              `for _ in (1, 2):` `endif` `endfor` (generated documents   *)
(*              only; their inside belongs to C03/C05)                     *)
(*                                                                         *)
(* Where the property and the documentation are silent the machine is      *)
(* NONDETERMINISTIC (every outcome it can reach is acceptable) or yields   *)
(* the wildcard error "ANY" (tree or Mako exception, nothing more said):   *)
(*   - an incomplete `</%`            : error, or literal text             *)
(*   - a lone CR inside a %/## line   : ordinary character, or the line is *)
(*                                      not a directive (literal text)     *)
(*   - a ## line ending in backslash  : continues, or ends at the newline  *)
(*   - whitespace containing a lone CR before a line-leading %%            *)
(*   - junk (non name="value") material in a <%text ...> head              *)
(*   - `#` running to the end of input inside <% %>            : ANY       *)
(* Known deviations of the code are NOT in here (see c01.py / DESIGN s.5). *)
(***************************************************************************)
EXTENDS Naturals, Sequences, FiniteSets, TLC

VARIABLES src,    \* the source AS GIVEN to Mako, a sequence of symbols (never changes)
          route,  \* the pre-lexing route: the preprocessor operations applied to src before lexing (<<>>: none)
          txt,    \* the text that is LEXED = Transform(route, src); Accounting speaks about this text
          pos,    \* cursor: next symbol to look at (1-based)
          line,   \* line number of pos
          nodes,  \* parse tree so far, flat, in NORMAL FORM (adjacent text merged, empty text dropped)
          segs,   \* one record per cascade iteration: rule, span [p, e), literal image
          err,    \* [why |-> "none"] or the error the lexer ends with
          fin,    \* lexing has ended
          tags,   \* stack of open tag keywords
          ctl,    \* stack of open control keywords [kw, p, l]
          ostk,   \* output frames [k, buf]; ostk[1].buf is the rendered output
          feat    \* unspecified / noteworthy features met (for signatures only)
lvars == <<src, route, txt, pos, line, nodes, segs, err, fin, tags, ctl, ostk, feat>>

N == Len(txt)
At(i) == IF i >= 1 /\ i <= N THEN txt[i] ELSE "EOF"
Seg(i, j) == SubSeq(txt, i, j)
Blank == {"sp", "tb"}
Space == {"sp", "tb", "nl", "cr"}
\* `v`: a character that is white space for Unicode (and for Python's \s) but not for Python source: VT NEL NBSP LS PS (FF)
XSpace == Space \cup {"v"}
Word  == {"w", "u", "TX", "DC", "DF", "BK"}
Quote == {"dq", "sq"}
\* INC: a whole self-closed tag with Python text in an attribute, <%include file="${o}"/>;  IFO: the control-line body `if o:`
\* (o = the same filler as the symbol o: directives whose Python text is data the compiler may reject for any reason)
TagAtoms == {"DEF", "DE2", "BLK", "INC"}
CtlOpen  == {"IFT", "IFF", "FOR", "IFO"}
CtlClose == {"EIF", "EFR"}
DocOpen   == <<"lt", "pc", "DC", "gt">>
DocClose  == <<"lt", "sl", "pc", "DC", "gt">>
TextClose == <<"lt", "sl", "pc", "TX", "gt">>

RECURSIVE Skip(_, _)
Skip(i, S) == IF i <= N /\ txt[i] \in S THEN Skip(i + 1, S) ELSE i
SkipBlanks(i) == Skip(i, Blank)
Starts(i, pat) == \A k \in 1..Len(pat) : At(i + k - 1) = pat[k]
RECURSIVE Find(_, _)
Find(i, pat) == IF i > N THEN 0 ELSE IF Starts(i, pat) THEN i ELSE Find(i + 1, pat)
\* MAGIC: a whole `## -*- coding: ... -*-` line with its newline (only ever the first symbol of a source)
CountNl(i, j) == Cardinality({k \in i..j : At(k) \in {"nl", "MAGIC"}})
LineStart(p) == p = 1 \/ At(p - 1) \in {"nl", "MAGIC"}

\* line terminators (LF, or CR LF spelled as two symbols) and backslash-newline
IsTerm(i) == At(i) = "nl" \/ (At(i) = "cr" /\ At(i + 1) = "nl")
TermLen(i) == IF At(i) = "nl" THEN 1 ELSE 2
IsCont(i) == At(i) = "bs" /\ IsTerm(i + 1)
ContLen(i) == 1 + TermLen(i + 1)
\* index of the terminator (or N+1) of the line scanned from i; cont: backslash-newline continues it
RECURSIVE LineEnd(_, _)
LineEnd(i, cont) == IF i > N THEN N + 1
                    ELSE IF cont /\ IsCont(i) THEN LineEnd(i + ContLen(i), cont)
                    ELSE IF IsTerm(i) THEN i
                    ELSE LineEnd(i + 1, cont)
AfterTerm(i) == IF i > N THEN N + 1 ELSE i + TermLen(i)
LoneCr(i, j) == \E k \in i..j : At(k) = "cr" /\ At(k + 1) # "nl"
HasCont(i, j) == \E k \in i..j : IsCont(k)

RECURSIVE StripL(_), StripR(_)
StripL(s) == IF s # <<>> /\ Head(s) \in Space THEN StripL(Tail(s)) ELSE s
StripR(s) == IF s # <<>> /\ s[Len(s)] \in Space THEN StripR(SubSeq(s, 1, Len(s) - 1)) ELSE s
Strip(s) == StripR(StripL(s))

(***************************************************************************)
(* ExprScan: the Python-lexical scanner shared by ${ } (nest = TRUE: stops *)
(* at `}` -- and at `|` if pipe -- outside brackets, strings and comments) *)
(* and <% %> (nest = FALSE: stops at `%>` outside strings and comments).   *)
(* Result: e = index of the terminator (0: none), ill = lexically          *)
(* ill-formed Python (unterminated string, mismatched bracket), heof = a   *)
(* # comment ran to the end of input.                                      *)
(***************************************************************************)
RECURSIVE TripleClose(_, _), SingleClose(_, _)
TripleClose(j, c) == IF j > N THEN 0
                     ELSE IF txt[j] = "bs" THEN TripleClose(j + 2, c)
                     ELSE IF Starts(j, <<c, c, c>>) THEN j + 2
                     ELSE TripleClose(j + 1, c)
SingleClose(j, c) == IF j > N THEN 0
                     ELSE IF txt[j] = "bs" THEN (IF At(j + 1) = "cr" /\ At(j + 2) = "nl" THEN SingleClose(j + 3, c) ELSE SingleClose(j + 2, c))
                     ELSE IF txt[j] \in {"nl", "cr"} THEN 0
                     ELSE IF txt[j] = c THEN j
                     ELSE SingleClose(j + 1, c)
\* index of the last symbol of the string literal opening at i, or 0
StrClose(i) == LET c == txt[i] IN IF Starts(i, <<c, c, c>>) THEN TripleClose(i + 3, c) ELSE SingleClose(i + 1, c)
Closes(o, c) == (o = "lb" /\ c = "rb") \/ (o = "lp" /\ c = "rp") \/ (o = "ls" /\ c = "rs")
ScanRes(e, ill, heof) == [e |-> e, ill |-> ill, heof |-> heof]
RECURSIVE Scan(_, _, _, _)
Scan(i, stk, nest, pipe) ==
  IF i > N THEN ScanRes(0, FALSE, FALSE)
  ELSE LET c == txt[i] IN
    IF c = "hs" THEN (LET t == Find(i, <<"nl">>) IN IF t = 0 THEN ScanRes(0, FALSE, TRUE) ELSE Scan(t + 1, stk, nest, pipe))
    ELSE IF c \in Quote THEN (LET cl == StrClose(i) IN IF cl = 0 THEN ScanRes(0, TRUE, FALSE) ELSE Scan(cl + 1, stk, nest, pipe))
    ELSE IF ~nest THEN (IF Starts(i, <<"pc", "gt">>) THEN ScanRes(i, FALSE, FALSE) ELSE Scan(i + 1, stk, nest, pipe))
    ELSE IF c \in {"lb", "lp", "ls"} THEN Scan(i + 1, Append(stk, c), nest, pipe)
    ELSE IF c \in {"rb", "rp", "rs"} THEN
         (IF stk = <<>> THEN (IF c = "rb" THEN ScanRes(i, FALSE, FALSE) ELSE ScanRes(0, TRUE, FALSE))
          ELSE IF Closes(stk[Len(stk)], c) THEN Scan(i + 1, SubSeq(stk, 1, Len(stk) - 1), nest, pipe)
          ELSE ScanRes(0, TRUE, FALSE))
    ELSE IF c = "pp" /\ pipe /\ stk = <<>> THEN ScanRes(i, FALSE, FALSE)
    ELSE Scan(i + 1, stk, nest, pipe)
\* the split of `${ x | f }` starting at p: [ok, ill, heof, x1, x2 (expression span), f1, f2 (filter span, f1 = 0: none), e (closing brace)]
ExprSplit(p) ==
  LET s1 == Scan(p + 2, <<>>, TRUE, TRUE) IN
  IF s1.e = 0 THEN [ok |-> FALSE, ill |-> s1.ill, heof |-> s1.heof]
  ELSE IF txt[s1.e] = "rb" THEN [ok |-> TRUE, x1 |-> p + 2, x2 |-> s1.e - 1, f1 |-> 0, f2 |-> 0, e |-> s1.e]
  ELSE LET s2 == Scan(s1.e + 1, <<>>, TRUE, FALSE) IN
       IF s2.e = 0 THEN [ok |-> FALSE, ill |-> s2.ill, heof |-> s2.heof]
       ELSE [ok |-> TRUE, x1 |-> p + 2, x2 |-> s1.e - 1, f1 |-> s1.e + 1, f2 |-> s2.e - 1, e |-> s2.e]

(***************************************************************************)
(* Text runs, tag heads, closing tags                                      *)
(***************************************************************************)
\* first position >= i where literal text must stop (a directive may start there)
RECURSIVE TextEnd(_)
TextEnd(i) == IF i > N THEN N + 1
   ELSE IF Starts(i, <<"dl", "lb">>) \/ Starts(i, <<"lt", "pc">>) \/ Starts(i, <<"lt", "sl", "pc">>) \/ txt[i] \in TagAtoms THEN i
   ELSE IF IsCont(i) THEN i
   ELSE IF i > 1 /\ txt[i - 1] = "nl" /\ (LET j == SkipBlanks(i) IN At(j) = "pc" \/ Starts(j, <<"hs", "hs">>)) THEN i
   ELSE TextEnd(i + 1)
\* attribute material of a tag head: (whitespace word-run | quoted string)*
RECURSIVE Attrs(_)
Attrs(i) == IF At(i) \in Quote THEN (LET j == Find(i + 1, <<txt[i]>>) IN IF j = 0 THEN i ELSE Attrs(j + 1))
            ELSE LET j == Skip(i, XSpace) IN IF j > i /\ Skip(j, Word) > j THEN Attrs(Skip(j, Word)) ELSE i
\* <% word-run attribute-material whitespace* (/)? >
TagHead(p) ==
  LET w1 == p + 2  w2 == Skip(w1, Word) IN
  IF ~Starts(p, <<"lt", "pc">>) \/ w2 = w1 THEN [ok |-> FALSE]
  ELSE LET a == Attrs(w2)  b == Skip(a, XSpace) IN
       IF At(b) = "gt" THEN [ok |-> TRUE, kw |-> Seg(w1, w2 - 1), gt |-> b, selfc |-> FALSE, junk |-> a > w2]
       ELSE IF At(b) = "sl" /\ At(b + 1) = "gt" THEN [ok |-> TRUE, kw |-> Seg(w1, w2 - 1), gt |-> b + 1, selfc |-> TRUE, junk |-> a > w2]
       ELSE [ok |-> FALSE]
\* </% blanks* name blanks* >   (name: shortest non-empty run of non-blank symbols that is followed by blanks* >)
RECURSIVE CloseName(_, _)
CloseName(s, e) == IF e > N \/ txt[e] \in Blank THEN 0
                   ELSE IF At(SkipBlanks(e + 1)) = "gt" THEN e
                   ELSE CloseName(s, e + 1)
CloseTag(p) == LET s == SkipBlanks(p + 3)  e == CloseName(s, s) IN
               IF e = 0 THEN [ok |-> FALSE] ELSE [ok |-> TRUE, name |-> Seg(s, e), gt |-> SkipBlanks(e + 1)]

\* which matcher of the cascade applies at p (the first one, in the order of Lexer.parse)
Rule(p) == LET b == SkipBlanks(p) IN
  IF p = 0 THEN "Transform"
  ELSE IF p > N THEN "End"
  ELSE IF p = 1 /\ txt[1] = "MAGIC" THEN "Coding"
  ELSE IF Starts(p, <<"dl", "lb">>) THEN "Expr"
  ELSE IF LineStart(p) /\ At(b) = "pc" /\ At(b + 1) # "pc" THEN "Control"
  ELSE IF LineStart(p) /\ Starts(b, <<"hs", "hs">>) THEN "LineComment"
  ELSE IF Starts(p, DocOpen) /\ Find(p + 4, DocClose) # 0 THEN "Doc"
  ELSE IF txt[p] \in TagAtoms \/ TagHead(p).ok THEN "TagStart"
  ELSE IF Starts(p, <<"lt", "sl", "pc">>) THEN "TagEnd"
  ELSE IF Starts(p, <<"lt", "pc">>) THEN "Block"
  ELSE IF LineStart(p) /\ Starts(b, <<"pc", "pc">>) THEN "Percent"
  ELSE IF IsCont(p) THEN "Cont"
  ELSE "Text"

(***************************************************************************)
(* State updates                                                           *)
(***************************************************************************)
NoErr == [why |-> "none"]
Node(kind, p, l, body) == [k |-> kind, p |-> p, l |-> l, b |-> body]
AddNode(ns, nd) ==
  IF nd.k # "text" THEN Append(ns, nd)
  ELSE IF nd.b = <<>> THEN ns
  ELSE IF ns # <<>> /\ ns[Len(ns)].k = "text" THEN [ns EXCEPT ![Len(ns)].b = @ \o nd.b]
  ELSE Append(ns, nd)
Write(stk, s) == [stk EXCEPT ![Len(stk)].buf = @ \o s]
Push(stk, kind) == Append(stk, [k |-> kind, buf |-> <<>>])
\* closing a frame: a block / `if True` body is rendered in place, a `for` over two items twice,
\* a def body (never called) and an `if False` body not at all
Pop(stk) == IF Len(stk) < 2 THEN stk
            ELSE LET f == stk[Len(stk)]  r == SubSeq(stk, 1, Len(stk) - 1)
                     c == IF f.k \in {"BK", "IFT"} THEN f.buf ELSE IF f.k = "FOR" THEN f.buf \o f.buf ELSE <<>>
                 IN Write(r, c)
\* one cascade iteration consuming [pos, e): rule r, nodes nds (in order), literal image img written to the output
Advance(r, e, nds, img, stk, ft) ==
  /\ pos' = e /\ line' = line + CountNl(pos, e - 1)
  /\ segs' = Append(segs, [r |-> r, p |-> pos, e |-> e, b |-> img])
  /\ nodes' = (IF Len(nds) = 0 THEN nodes ELSE IF Len(nds) = 1 THEN AddNode(nodes, nds[1]) ELSE AddNode(AddNode(nodes, nds[1]), nds[2]))
  /\ ostk' = Write(stk, img)
  /\ feat' = feat \cup ft
  /\ UNCHANGED <<src, route, txt, err, fin>>
Fail(why, p, l, definite, ft) ==
  /\ err' = [why |-> why, p |-> p, l |-> l, d |-> definite] /\ fin' = TRUE /\ feat' = feat \cup ft
  /\ UNCHANGED <<src, route, txt, pos, line, nodes, segs, tags, ctl, ostk>>
\* literal text [pos, e) written as it stands
EmitText(r, e, ft) == Advance(r, e, <<Node("text", pos, line, Seg(pos, e - 1))>>, Seg(pos, e - 1), ostk, ft) /\ UNCHANGED <<tags, ctl>>

(***************************************************************************)
(* Pre-lexing routes.  Before the cascade runs, Lexer.parse() decodes the   *)
(* source (decode_raw_stream: bytes, BOM, magic comment, input_encoding --  *)
(* none of which changes the characters) and hands it to the preprocessor   *)
(* callables, in order.  The operations modelled:                          *)
(*   id   returns the text unchanged          del  deletes the first symbol *)
(*   ins  inserts a header line `##w<nl>` in front (LENGTHENS the text)     *)
(*   exp  expands the shorthand `o` to `${w}` everywhere (lengthens)        *)
(* The result is `txt`: the text the lexer must account for completely.    *)
(***************************************************************************)
RECURSIVE Expand(_)
Expand(s) == IF s = <<>> THEN <<>>
             ELSE (IF Head(s) = "o" THEN <<"dl", "lb", "w", "rb">> ELSE <<Head(s)>>) \o Expand(Tail(s))
ApplyOp(op, s) == CASE op = "id" -> s
                    [] op = "del" -> (IF s = <<>> THEN s ELSE Tail(s))
                    [] op = "ins" -> <<"hs", "hs", "w", "nl">> \o s
                    [] op = "exp" -> Expand(s)
RECURSIVE ApplyRoute(_, _)
ApplyRoute(r, s) == IF r = <<>> THEN s ELSE ApplyRoute(Tail(r), ApplyOp(Head(r), s))
\* a source s that reaches the lexer through route r (pos = 0: not yet transformed)
LexInitR(s, r) == /\ src = s /\ route = r /\ txt = s /\ pos = (IF r = <<>> THEN 1 ELSE 0)
                  /\ line = 1 /\ nodes = <<>> /\ segs = <<>> /\ err = NoErr /\ fin = FALSE
                  /\ tags = <<>> /\ ctl = <<>> /\ ostk = <<[k |-> "top", buf |-> <<>>]>> /\ feat = {}
LexInit(t) == LexInitR(t, <<>>)
\* the preprocessors run: from here on `txt` is fixed
Transform ==
  /\ ~fin /\ Rule(pos) = "Transform"
  /\ txt' = ApplyRoute(route, src) /\ pos' = 1
  /\ UNCHANGED <<src, route, line, nodes, segs, err, fin, tags, ctl, ostk, feat>>

(***************************************************************************)
(* The cascade                                                             *)
(***************************************************************************)
\* the magic encoding comment at the very start of the lexed text is stepped over (`self.match_reg(self._coding_re)`)
MatchCoding ==
  /\ ~fin /\ Rule(pos) = "Coding"
  /\ Advance("Coding", 2, <<>>, <<>>, ostk, {"coding-comment"}) /\ UNCHANGED <<tags, ctl>>

MatchEnd ==
  /\ ~fin /\ Rule(pos) = "End"
  /\ IF tags # <<>> THEN Fail("unclosed-tag", pos, line, FALSE, {})
     ELSE IF ctl # <<>> THEN Fail("unterminated-control", ctl[Len(ctl)].p, ctl[Len(ctl)].l, TRUE, {})
     ELSE fin' = TRUE /\ UNCHANGED <<src, route, txt, pos, line, nodes, segs, err, tags, ctl, ostk, feat>>

MatchExpression ==
  /\ ~fin /\ Rule(pos) = "Expr"
  /\ LET sp == ExprSplit(pos) IN
     IF ~sp.ok THEN Fail(IF sp.ill THEN "expr-lexical" ELSE "unterminated-expr", pos, line, TRUE,
                         IF sp.heof THEN {"hash-eof-expr"} ELSE {})
     ELSE LET x == Seg(sp.x1, sp.x2)
              f == IF sp.f1 = 0 THEN <<>> ELSE Strip(Seg(sp.f1, sp.f2))
          IN Advance("Expr", sp.e + 1, <<Node("expr", pos, line, x) @@ [f |-> f]>>,
                     <<"X(">> \o Strip(x) \o (IF f = <<>> THEN <<>> ELSE <<"X|">> \o f) \o <<")X">>, ostk,
                     IF \E k \in pos..sp.e : txt[k] = "v" THEN {"exotic-space-in-python"} ELSE {})
             /\ UNCHANGED <<tags, ctl>>

\* a `%` line.  Content = the logical line after `%` and blanks.
MatchControlLine ==
  /\ ~fin /\ Rule(pos) = "Control"
  /\ LET b == SkipBlanks(pos)
         c1 == SkipBlanks(b + 1)
         ce == LineEnd(b + 1, TRUE)
         body == Seg(c1, ce - 1)
         kw == IF body = <<>> THEN "none" ELSE body[1]
         clean == body # <<>> /\ \A k \in 2..Len(body) : body[k] \in Blank
     IN \/ IF clean /\ kw \in CtlOpen THEN
             /\ Advance("Control", AfterTerm(ce), <<Node("ctl", pos, line, <<kw>>)>>, <<>>, Push(ostk, kw), {"frames"})
             /\ ctl' = Append(ctl, [kw |-> kw, p |-> pos, l |-> line]) /\ UNCHANGED tags
           ELSE IF clean /\ kw \in CtlClose THEN
             IF ctl = <<>> THEN Fail("control-no-start", pos, line, TRUE, {})
             ELSE IF (kw = "EIF") # (ctl[Len(ctl)].kw \in {"IFT", "IFF", "IFO"}) THEN Fail("control-mismatch", pos, line, TRUE, {})
             ELSE /\ Advance("Control", AfterTerm(ce), <<Node("ctl", pos, line, <<kw>>)>>, <<>>, Pop(ostk), {})
                  /\ ctl' = SubSeq(ctl, 1, Len(ctl) - 1) /\ UNCHANGED tags
           ELSE Fail("control-line", pos, line, TRUE, IF LoneCr(b + 1, ce - 1) THEN {"lone-cr-line"} ELSE {})
        \/ /\ LoneCr(b + 1, ce - 1)          \* unspecified: the line is not recognised as a directive
           /\ EmitText("Text", TextEnd(pos + 1), {"lone-cr-line"})

\* a `##` line vanishes with its terminator
MatchLineComment ==
  /\ ~fin /\ Rule(pos) = "LineComment"
  /\ LET b == SkipBlanks(pos)
         c1 == SkipBlanks(b + 2)
         ce == LineEnd(b + 2, TRUE)
         ce0 == LineEnd(b + 2, FALSE)
         lone == LoneCr(b + 2, ce - 1)
     IN \/ Advance("LineComment", AfterTerm(ce), <<Node("comment", pos, line, Seg(c1, ce - 1))>>, <<>>, ostk,
                   (IF lone THEN {"lone-cr-line"} ELSE {}) \cup (IF ce0 # ce THEN {"comment-continuation"} ELSE {}))
           /\ UNCHANGED <<tags, ctl>>
        \/ /\ ce0 # ce                       \* unspecified: continuation of a comment line
           /\ Advance("LineComment", AfterTerm(ce0), <<Node("comment", pos, line, Seg(c1, ce0 - 1))>>, <<>>, ostk, {"comment-continuation"})
           /\ UNCHANGED <<tags, ctl>>
        \/ /\ lone
           /\ EmitText("Text", TextEnd(pos + 1), {"lone-cr-line"})

MatchDocComment ==
  /\ ~fin /\ Rule(pos) = "Doc"
  /\ LET c == Find(pos + 4, DocClose) IN
     Advance("Doc", c + 5, <<Node("comment", pos, line, Seg(pos + 4, c - 1))>>, <<>>, ostk, {}) /\ UNCHANGED <<tags, ctl>>

MatchTagStart ==
  /\ ~fin /\ Rule(pos) = "TagStart"
  /\ IF txt[pos] = "INC" THEN
        Advance("TagStart", pos + 1, <<Node("tag", pos, line, <<"IN">>), Node("endtag", pos, line, <<"IN">>)>>, <<>>, ostk, {"frames"})
        /\ UNCHANGED <<tags, ctl>>
     ELSE IF txt[pos] \in TagAtoms THEN
        LET kw == IF txt[pos] = "BLK" THEN "BK" ELSE "DF" IN
        /\ Advance("TagStart", pos + 1, <<Node("tag", pos, line, <<kw>>)>>, <<>>, Push(ostk, kw), {"frames"})
        /\ tags' = Append(tags, <<kw>>) /\ UNCHANGED ctl
     ELSE LET h == TagHead(pos) IN
       IF h.kw = <<"BK">> /\ ~h.junk /\ ~h.selfc THEN
          /\ Advance("TagStart", h.gt + 1, <<Node("tag", pos, line, <<"BK">>)>>, <<>>, Push(ostk, "BK"), {"frames"})
          /\ tags' = Append(tags, <<"BK">>) /\ UNCHANGED ctl
       ELSE IF h.kw # <<"TX">> THEN Fail("tag", pos, line, TRUE, {})      \* no such tag / missing attribute
       ELSE \/ IF h.selfc THEN Advance("TextTag", h.gt + 1, <<Node("texttag", pos, line, <<>>)>>, <<>>, ostk, IF h.junk THEN {"junk-attr"} ELSE {})
                               /\ UNCHANGED <<tags, ctl>>
               ELSE LET c == Find(h.gt + 1, TextClose) IN
                    IF c = 0 THEN Fail("unclosed-text", pos, line, TRUE, {})
                    ELSE Advance("TextTag", c + 5,
                                 <<Node("texttag", pos, line, Seg(h.gt + 1, c - 1)) @@ [bp |-> h.gt + 1, bl |-> line + CountNl(pos, h.gt)]>>,
                                 Seg(h.gt + 1, c - 1), ostk,
                                 (IF h.junk THEN {"junk-attr"} ELSE {}) \cup (IF c = h.gt + 1 THEN {"empty-text-tag"} ELSE {}))
                         /\ UNCHANGED <<tags, ctl>>
            \/ /\ h.junk /\ Fail("tag", pos, line, TRUE, {"junk-attr"})    \* unspecified: junk in the head

MatchTagEnd ==
  /\ ~fin /\ Rule(pos) = "TagEnd"
  /\ LET c == CloseTag(pos) IN
     IF c.ok THEN
        IF tags = <<>> THEN Fail("close-without-open", pos, line, TRUE, {})
        ELSE IF tags[Len(tags)] # c.name THEN Fail("close-mismatch", pos, line, TRUE, {})
        ELSE /\ Advance("TagEnd", c.gt + 1, <<Node("endtag", pos, line, c.name)>>, <<>>, Pop(ostk), {})
             /\ tags' = SubSeq(tags, 1, Len(tags) - 1) /\ UNCHANGED ctl
     ELSE \/ Fail("incomplete-close", pos, line, TRUE, {"incomplete-close"})     \* unspecified: error ...
          \/ EmitText("Text", TextEnd(pos + 1), {"incomplete-close"})            \* ... or literal text; never dropped

MatchPythonBlock ==
  /\ ~fin /\ Rule(pos) = "Block"
  /\ LET m == IF At(pos + 2) = "ex" THEN 1 ELSE 0
         s == Scan(pos + 2 + m, <<>>, FALSE, FALSE)
     IN IF s.heof THEN Fail("ANY", pos, line, FALSE, {"hash-eof-block"})
        ELSE IF s.e = 0 THEN Fail(IF s.ill THEN "block-lexical" ELSE "unterminated-block", pos, line, TRUE, {})
        ELSE Advance("Block", s.e + 2, <<Node("code", pos, line, Seg(pos + 2 + m, s.e - 1)) @@ [m |-> m]>>, <<>>, ostk,
                     IF \E k \in pos..s.e : txt[k] = "v" THEN {"exotic-space-in-python"} ELSE {})
             /\ UNCHANGED <<tags, ctl>>

\* line-leading %% (after optional blanks) yields one % fewer
MatchPercent ==
  /\ ~fin /\ Rule(pos) = "Percent"
  /\ LET b == SkipBlanks(pos)  e == Skip(b + 2, {"pc"})  img == Seg(pos, b - 1) \o Seg(b + 1, e - 1) IN
     Advance("Percent", e, <<Node("text", pos, line, img)>>, img, ostk, {}) /\ UNCHANGED <<tags, ctl>>

\* backslash + newline is consumed, nothing is emitted
MatchContinuation ==
  /\ ~fin /\ Rule(pos) = "Cont"
  /\ Advance("Cont", pos + ContLen(pos), <<>>, <<>>, ostk, {}) /\ UNCHANGED <<tags, ctl>>

MatchText ==
  /\ ~fin /\ Rule(pos) = "Text"
  /\ \/ EmitText("Text", TextEnd(pos + 1), {})
     \/ LET q == Skip(pos, XSpace) IN      \* unspecified: is `CR %%` / `NBSP %%` a line-leading %% ?
        /\ LineStart(pos) /\ q > pos /\ Starts(q, <<"pc", "pc">>) /\ TextEnd(pos + 1) > q
        /\ LET e == Skip(q + 2, {"pc"})  img == Seg(pos, q - 1) \o Seg(q + 1, e - 1) IN
           Advance("Percent", e, <<Node("text", pos, line, img)>>, img, ostk, {"cr-before-percent"}) /\ UNCHANGED <<tags, ctl>>

LexNext == \/ Transform \/ MatchCoding \/ MatchEnd \/ MatchExpression \/ MatchControlLine \/ MatchLineComment \/ MatchDocComment
           \/ MatchTagStart \/ MatchTagEnd \/ MatchPythonBlock \/ MatchPercent \/ MatchContinuation \/ MatchText

(***************************************************************************)
(* The property                                                            *)
(***************************************************************************)
\* the iterations tile the consumed prefix: nothing dropped, nothing duplicated, in order
Tiles == /\ (segs = <<>> => pos <= 1)
         /\ \A i \in 1..Len(segs) : segs[i].e > segs[i].p /\ segs[i].p = (IF i = 1 THEN 1 ELSE segs[i - 1].e)
         /\ (segs # <<>> => segs[Len(segs)].e = pos)
\* the literal image of every iteration is the documented image of its span
IsSubAt(b, p, e) == b = <<>> \/ \E i \in p..(e - 1) : i + Len(b) <= e /\ Seg(i, i + Len(b) - 1) = b
ImageOK(s) ==
  CASE s.r = "Text" -> s.b = Seg(s.p, s.e - 1)
    [] s.r = "Percent" -> \E q \in s.p..(s.e - 2) : txt[q] = "pc" /\ txt[q + 1] = "pc" /\ s.b = Seg(s.p, q - 1) \o Seg(q + 1, s.e - 1)
                                                     /\ \A k \in s.p..(q - 1) : txt[k] \in XSpace
    [] s.r = "TextTag" -> IsSubAt(s.b, s.p, s.e)
    [] s.r = "Expr" -> s.b[1] = "X(" /\ s.b[Len(s.b)] = ")X"
    [] OTHER -> s.b = <<>>
Images == \A i \in 1..Len(segs) : ImageOK(segs[i])
\* every node reports the position of the first symbol of its span
NodeLines == \A i \in 1..Len(nodes) : nodes[i].l = 1 + CountNl(1, nodes[i].p - 1)
NormalForm == \A i \in 1..Len(nodes) : nodes[i].k = "text" => nodes[i].b # <<>> /\ (i > 1 => nodes[i - 1].k # "text")
RECURSIVE Cat(_, _)
Cat(ss, i) == IF i > Len(ss) THEN <<>> ELSE ss[i].b \o Cat(ss, i + 1)
\* without frames (defs, blocks, control structures) the output is the concatenation of the images
Output == ("frames" \notin feat /\ Len(ostk) = 1) => ostk[1].buf = Cat(segs, 1)
Accounting == Tiles /\ Images /\ NodeLines /\ NormalForm /\ Output /\ line = 1 + CountNl(1, pos - 1)
\* the same, stated on the last iteration / last node only (what changed in this step): used on long
\* documents, where re-checking every earlier iteration in every state would be quadratic
AccountingInc ==
  /\ (segs = <<>> => pos <= 1)
  /\ (segs # <<>> => LET n == Len(segs)  s == segs[n] IN
                      /\ s.e > s.p /\ s.e = pos /\ s.p = (IF n = 1 THEN 1 ELSE segs[n - 1].e) /\ ImageOK(s))
  /\ (nodes # <<>> => LET n == Len(nodes)  d == nodes[n] IN
                      /\ (d.k = "text" => d.b # <<>> /\ (n > 1 => nodes[n - 1].k # "text"))
                      /\ d.l = (IF n = 1 THEN 1 + CountNl(1, d.p - 1) ELSE nodes[n - 1].l + CountNl(nodes[n - 1].p, d.p - 1)))
  /\ (fin => line = 1 + CountNl(1, pos - 1))
\* every cascade iteration moves the cursor forward; at most N iterations
Progress == [][pos' > pos \/ fin']_lvars
Iterations == Len(segs) <= N /\ pos <= N + 1
\* lexing ends with an error or with a complete tree over the whole input
ErrOrTree == fin => \/ err.why # "none"
                    \/ pos = N + 1 /\ tags = <<>> /\ ctl = <<>>
LexSpec(t) == LexInit(t) /\ [][LexNext]_lvars
=============================================================================
