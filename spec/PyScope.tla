------------------------------- MODULE PyScope -------------------------------
(***************************************************************************)
(* Free and bound names of a block of Python statements embedded in a      *)
(* template (property C19, third clause): every name the code reads        *)
(* without binding it must be obtained from the template's namespace;      *)
(* names it binds itself -- comprehension variables, function parameters   *)
(* of every kind, nested-function locals -- are never demanded from the    *)
(* context.                                                                *)
(*                                                                         *)
(* The block is the body of a Python function (render_body or a def); the  *)
(* operators below are Python's scoping rule for function bodies without   *)
(* global/nonlocal declarations:                                           *)
(*   - a scope's locals are its parameters and every name bound by a       *)
(*     statement directly in it (assignment, augmented assignment, for     *)
(*     target, with/except `as`, import, def name), at any nesting of      *)
(*     compound statements, flow-insensitively;                            *)
(*   - def / lambda / comprehension open a new scope; defaults and         *)
(*     decorators of a def or lambda and the FIRST iterable of a           *)
(*     comprehension are evaluated in the enclosing scope;                 *)
(*   - what a scope needs from outside is what it reads, plus what its     *)
(*     nested scopes need, minus its locals.                               *)
(* Mako's counterpart is mako/pyparser.py FindIdentifiers (declared /      *)
(* undeclared identifiers of mako.ast.PythonCode) feeding                  *)
(* codegen.write_variable_declares.                                        *)
(*                                                                         *)
(* Programs come in as TLA+ literals (constant Progs, written by the       *)
(* harness from a bounded grammar); one behaviour per program: the top     *)
(* level statements are consumed one by one (action Stmt), Finish          *)
(* subtracts the bound names and prints {id, free, bound}.  The harness    *)
(* cross-checks the printed sets against CPython's symtable (judge of the  *)
(* specification), then compares Mako's analysis and strict_undefined      *)
(* renders with them.                                                      *)
(***************************************************************************)
EXTENDS Naturals, Sequences, FiniteSets, TLC, Json
CONSTANT Progs

SeqSet(s) == {s[i] : i \in 1..Len(s)}
Opt(n) == IF n = "" THEN {} ELSE {n}
ParamNames(p) == SeqSet(p.posonly) \cup SeqSet(p.pos) \cup SeqSet(p.kwonly) \cup Opt(p.vararg) \cup Opt(p.kwarg)

RECURSIVE EFree(_), EsFree(_), GensInner(_, _), SBound(_), SsBound(_), SNeed(_), SsNeed(_),
          EBind(_), EsBind(_), GensBind(_, _), TBound(_), TsBound(_), TNeed(_), TsNeed(_)
GenTargets(gs) == UNION {SeqSet(gs[i].targets) : i \in 1..Len(gs)}
\* Names an expression BINDS in the function it stands in: `name := value` binds in the enclosing function
\* or lambda, passing through comprehension scopes.
EBind(e) ==
  CASE e.k \in {"name", "const"} -> {}
    [] e.k = "op" -> EsBind(e.args)
    [] e.k = "walrus" -> {e.id} \cup EBind(e.value)
    [] e.k = "lambda" -> EsBind(e.params.defaults) \cup EsBind(e.params.kwdefaults)    \* the body binds in the lambda
    [] e.k = "comp" -> EsBind(e.elts) \cup GensBind(e.gens, 1)
EsBind(es) == IF es = <<>> THEN {} ELSE EBind(Head(es)) \cup EsBind(Tail(es))
GensBind(gs, i) == IF i > Len(gs) THEN {} ELSE EsBind(gs[i].ifs) \cup GensBind(gs, i + 1)
\* Assignment targets: a pattern binds the names at its leaves; attribute and subscript targets bind
\* nothing and READ their object (and index).
TBound(t) ==
  CASE t.k = "tname" -> {t.id}
    [] t.k = "ttuple" -> TsBound(t.elts)
    [] t.k = "tstar" -> TBound(t.elt)
    [] t.k \in {"tattr", "tsub"} -> {}
TsBound(ts) == IF ts = <<>> THEN {} ELSE TBound(Head(ts)) \cup TsBound(Tail(ts))
TNeed(t) ==
  CASE t.k = "tname" -> {}
    [] t.k = "ttuple" -> TsNeed(t.elts)
    [] t.k = "tstar" -> TNeed(t.elt)
    [] t.k = "tattr" -> EFree(t.obj)
    [] t.k = "tsub" -> EFree(t.obj) \cup EFree(t.index)
TsNeed(ts) == IF ts = <<>> THEN {} ELSE TNeed(Head(ts)) \cup TsNeed(Tail(ts))
\* names an expression needs from the scope it stands in
EFree(e) ==
  CASE e.k = "name" -> {e.id}
    [] e.k = "const" -> {}
    [] e.k = "op" -> EsFree(e.args)
    [] e.k = "walrus" -> EFree(e.value)
    [] e.k = "lambda" -> EsFree(e.params.defaults) \cup EsFree(e.params.kwdefaults)
                         \cup (EFree(e.body) \ (ParamNames(e.params) \cup EBind(e.body)))
    [] e.k = "comp" -> EFree(e.gens[1].iter)
                       \cup ((EsFree(e.elts) \cup GensInner(e.gens, 1)) \ GenTargets(e.gens))
EsFree(es) == IF es = <<>> THEN {} ELSE EFree(Head(es)) \cup EsFree(Tail(es))
\* evaluated inside the comprehension's own scope: every condition, every iterable but the first
GensInner(gs, i) == IF i > Len(gs) THEN {}
                    ELSE EsFree(gs[i].ifs) \cup (IF i > 1 THEN EFree(gs[i].iter) ELSE {}) \cup GensInner(gs, i + 1)
\* the expressions that stand directly in a statement (not those of the statements nested in it)
SExprs(s) ==
  CASE s.k \in {"assign", "assignx", "augassign", "expr", "return"} -> <<s.value>>
    [] s.k = "annassign" -> (IF s.hasvalue THEN <<s.value>> ELSE <<>>)
    [] s.k = "for" -> <<s.iter>>
    [] s.k \in {"while", "if"} -> <<s.test>>
    [] s.k = "try" -> <<s.extype>>
    [] s.k \in {"with", "withx"} -> <<s.ctx>>
    [] s.k = "def" -> s.decorators \o s.params.defaults \o s.params.kwdefaults \o s.annots
    [] s.k = "class" -> s.bases
    [] OTHER -> <<>>
\* names a statement binds in the scope it stands in (SBound0: by its own form; plus := in its expressions)
SBound0(s) ==
  CASE s.k = "assign" -> SeqSet(s.targets)
    [] s.k = "assignx" -> TsBound(s.pats)                   \* chained assignment: EVERY target pattern binds
    [] s.k = "annassign" -> {s.target}                      \* with or without a value the name is local
    [] s.k = "withx" -> TBound(s.pat) \cup SsBound(s.body)
    [] s.k = "class" -> {s.name}
    [] s.k \in {"augassign", "del"} -> {s.target}          \* `del x` makes x a local of the scope as well
    [] s.k \in {"expr", "return", "break"} -> {}
    [] s.k = "for" -> SeqSet(s.targets) \cup SsBound(s.body) \cup SsBound(s.orelse)
    [] s.k \in {"while", "if"} -> SsBound(s.body) \cup SsBound(s.orelse)
    [] s.k = "try" -> SsBound(s.body) \cup Opt(s.exname) \cup SsBound(s.handler) \cup SsBound(s.final)
    [] s.k = "with" -> Opt(s.asname) \cup SsBound(s.body)
    [] s.k = "import" -> SeqSet(s.names)
    [] s.k = "def" -> {s.name}
SBound(s) == SBound0(s) \cup EsBind(SExprs(s))
SsBound(ss) == IF ss = <<>> THEN {} ELSE SBound(Head(ss)) \cup SsBound(Tail(ss))
\* names a statement needs from its scope or beyond (the scope's own locals are subtracted by the scope)
SNeed(s) ==
  CASE s.k = "assign" -> EFree(s.value)
    [] s.k = "assignx" -> EFree(s.value) \cup TsNeed(s.pats)
    [] s.k = "annassign" -> (IF s.hasvalue THEN EFree(s.value) ELSE {})   \* a local annotation is not evaluated
    [] s.k = "withx" -> EFree(s.ctx) \cup TNeed(s.pat) \cup SsNeed(s.body)
    \* a class body is a scope of its own (no functions inside are generated): bases are read outside
    [] s.k = "class" -> EsFree(s.bases) \cup (SsNeed(s.body) \ SsBound(s.body))
    [] s.k = "augassign" -> {s.target} \cup EFree(s.value)
    [] s.k \in {"expr", "return"} -> EFree(s.value)
    [] s.k \in {"break", "del"} -> {}
    [] s.k = "for" -> EFree(s.iter) \cup SsNeed(s.body) \cup SsNeed(s.orelse)
    [] s.k \in {"while", "if"} -> EFree(s.test) \cup SsNeed(s.body) \cup SsNeed(s.orelse)
    [] s.k = "try" -> SsNeed(s.body) \cup EFree(s.extype) \cup SsNeed(s.handler) \cup SsNeed(s.final)
    [] s.k = "with" -> EFree(s.ctx) \cup SsNeed(s.body)
    [] s.k = "import" -> {}
    \* decorators, defaults and annotations of a def are evaluated where the def statement stands
    [] s.k = "def" -> EsFree(s.decorators) \cup EsFree(s.params.defaults) \cup EsFree(s.params.kwdefaults)
                      \cup EsFree(s.annots)
                      \cup (SsNeed(s.body) \ (ParamNames(s.params) \cup SsBound(s.body)))
SsNeed(ss) == IF ss = <<>> THEN {} ELSE SNeed(Head(ss)) \cup SsNeed(Tail(ss))

VARIABLES p, i, bound, need, pc      \* p: the program of this behaviour (a record [id, body])
vars == <<p, i, bound, need, pc>>
Body == p.body
Init == p \in SeqSet(Progs) /\ i = 1 /\ bound = {} /\ need = {} /\ pc = "walk"
Stmt == /\ pc = "walk" /\ i <= Len(Body)
        /\ bound' = bound \cup SBound(Body[i]) /\ need' = need \cup SNeed(Body[i])
        /\ i' = i + 1 /\ UNCHANGED <<p, pc>>
Finish == /\ pc = "walk" /\ i > Len(Body) /\ pc' = "done"
          /\ PrintT(ToJson([id |-> p.id, free |-> need \ bound, bound |-> bound]))
          /\ UNCHANGED <<p, i, bound, need>>
Next == Stmt \/ Finish
Spec == Init /\ [][Next]_vars
\* the incremental walk computes what the definition says for the whole block
WalkIsDefinition == pc = "done" => (bound = SsBound(Body) /\ need = SsNeed(Body))
FreeBoundDisjoint == pc = "done" => (need \ bound) \cap bound = {}
=============================================================================
