---------------------------- MODULE Trace_Paths ----------------------------
(***************************************************************************)
(* Validates event traces recorded from the real mako (harness/c08.py)     *)
(* against Paths.tla.  One trace = one template of the corpus realised on  *)
(* every construction/rendering path in several processes (one process per *)
(* PYTHONHASHSEED value; the module directory survives, so every process   *)
(* after the first one re-loads the existing module file).  One initial    *)
(* state per trace; exactly one JSON verdict {t, ok, i, clause} per trace. *)
(*                                                                         *)
(* Meaning(text, context) is uninterpreted: the first render event of a    *)
(* (source, context/def key) fixes its digest, every later one -- on any   *)
(* path, through any method, under any hash seed -- must agree             *)
(* (PathIndependence).  Source/Code/Defs events are compared with what     *)
(* the model's action returns and the property invariants are evaluated    *)
(* on the state after every event.                                         *)
(***************************************************************************)
EXTENDS Paths, Json, IOUtils, TLCExt
Traces == JsonDeserialize(IOEnv.TRACE_FILE)
TMidU == [s \in Sources |-> <<"u", s>>]
TMidF == [s \in Sources |-> <<"f", s>>]
VARIABLES tr, l, verdict, mean, dref
tvars == <<vars, tr, l, verdict, mean, dref>>
Ev == Traces[tr].events
TInit == Init /\ tr \in 1..Len(Traces) /\ l = 1 /\ verdict = "run" /\ mean = {} /\ dref = ""
Report(ok, i, clause) == PrintT(ToJson([t |-> Traces[tr].id, ok |-> ok, i |-> i, clause |-> clause]))
Known(k) == \E e \in mean : e.k = k
Dig(k) == (CHOOSE e \in mean : e.k = k).d
InvClause == IF ~PathIndependence' THEN "inv:PathIndependence" ELSE IF ~OwnSource' THEN "inv:OwnSource"
             ELSE IF ~OwnCode' THEN "inv:OwnCode" ELSE IF ~DefsAgree' THEN "inv:DefsAgree"
             ELSE IF ~ModuleFileReused' THEN "inv:ModuleFileReused" ELSE ""
Finish(c0) ==
  LET c == IF c0 # "" THEN c0 ELSE InvClause IN
  /\ l' = l + 1
  /\ verdict' = (IF c # "" THEN "fail" ELSE IF l + 1 > Len(Ev) THEN "ok" ELSE "run")
  /\ (c # "" => Report(FALSE, l, c))
  /\ ((c = "" /\ l + 1 > Len(Ev)) => Report(TRUE, l, ""))
ConstructClause(e) == IF e.t # last'.t THEN "construct:object" ELSE IF e.how # last'.how THEN "construct:how" ELSE ""
\* what Source returns, as a digest: the text of the source the model says, or the exception
SrcDig(v) == IF v = "KeyError" THEN "exc:KeyError" ELSE Traces[tr].textdig
TStep ==
  /\ verdict = "run" /\ l <= Len(Ev) /\ UNCHANGED tr
  /\ LET e == Ev[l] IN
     \/ /\ e.ev = "construct" /\ e.kind = "string" /\ FromString(e.src, e.naming)
        /\ Finish(ConstructClause(e)) /\ UNCHANGED <<mean, dref>>
     \/ /\ e.ev = "construct" /\ e.kind = "file" /\ FromFile(e.src, e.naming)
        /\ Finish(ConstructClause(e)) /\ UNCHANGED <<mean, dref>>
     \/ /\ e.ev = "construct" /\ e.kind = "moddir" /\ (ToModuleDir(e.src, e.naming) \/ ReloadModuleFile(e.src, e.naming))
        /\ Finish(ConstructClause(e)) /\ UNCHANGED <<mean, dref>>
     \/ /\ e.ev = "construct" /\ e.kind \in {"wrapsrc", "wrapmix"} /\ WrapGiven(e.src, e.naming, e.kind)
        /\ Finish(ConstructClause(e)) /\ UNCHANGED <<mean, dref>>
     \/ /\ e.ev = "construct" /\ e.kind = "wrap" /\ WrapModule(e.src, e.naming)
        /\ Finish(ConstructClause(e)) /\ UNCHANGED <<mean, dref>>
     \/ /\ e.ev = "collect" /\ Collect(e.t) /\ Finish("") /\ UNCHANGED <<mean, dref>>
     \/ /\ e.ev = "newprocess" /\ NewProcess /\ Finish("") /\ UNCHANGED <<mean, dref>>
     \/ /\ e.ev = "render" /\ Render(e.t, e.m) /\ UNCHANGED dref
        /\ LET k == [s |-> last'.val, key |-> e.key] IN
           IF Known(k) THEN /\ Finish(IF Dig(k) = e.dig THEN "" ELSE "PathIndependence") /\ UNCHANGED mean
           ELSE /\ mean' = mean \cup {[k |-> k, d |-> e.dig]} /\ Finish("")
     \/ /\ e.ev = "source" /\ Source(e.t) /\ UNCHANGED <<mean, dref>>
        /\ Finish(IF e.dig # SrcDig(last'.val) THEN "source:not-as-modelled"
                  ELSE IF e.backing # last'.backing THEN "source:backing-not-as-modelled"
                  ELSE IF last'.val # "KeyError" /\ e.truth # "ok" THEN "OwnSource:" \o e.truth ELSE "")
     \/ /\ e.ev = "code" /\ Code(e.t) /\ UNCHANGED <<mean, dref>>
        /\ Finish(IF e.owner # last'.val THEN "code:not-as-modelled"
                  ELSE IF e.cls # "ok" THEN "OwnCode:" \o e.cls
                  ELSE IF e.backing # last'.backing THEN "code:backing-not-as-modelled"
                  ELSE IF e.truth # "ok" THEN "OwnCode:" \o e.truth ELSE "")     \* compared with the per-path ground truth
     \/ /\ e.ev = "defs" /\ Defs(e.t) /\ UNCHANGED mean
        /\ IF dref = "" THEN dref' = e.dig /\ Finish("")
           ELSE UNCHANGED dref /\ Finish(IF e.dig = dref THEN "" ELSE "DefsAgree")
TStuck ==
  /\ verdict = "run" /\ l <= Len(Ev) /\ ~ENABLED TStep
  /\ verdict' = "fail" /\ Report(FALSE, l, "not-enabled") /\ UNCHANGED <<vars, tr, l, mean, dref>>
TEmpty == /\ verdict = "run" /\ Len(Ev) = 0 /\ verdict' = "ok" /\ Report(TRUE, 0, "") /\ UNCHANGED <<vars, tr, l, mean, dref>>
TNext == TStep \/ TStuck \/ TEmpty
TSpec == TInit /\ [][TNext]_tvars
=============================================================================
