------------------------------ MODULE PyPrinter ------------------------------
(***************************************************************************************************)
(* The indentation state machine of mako/pygen.py PythonPrinter.writeline, driven by the lines     *)
(* that mako/codegen.py visitControlLine emits for a well-nested sequence of control lines (C03).  *)
(*                                                                                                 *)
(* Input alphabet (one template line each): primary control lines  if for forL while try with      *)
(* (forL = a `% for` whose body references `loop`: mangle_mako_loop emits `loop = __M_loop._enter`,*)
(* `try:`, `for .. in loop:` and, at the end line, None, `finally:`, `loop = __M_loop._exit()`,    *)
(* None), ternary lines  elif else except,  `end`,  stmt (a text/expression line, one              *)
(* __M_writer(...) statement) and comment (`##`, emits nothing).  TLC generates every sequence the *)
(* lexer accepts and that is valid Python (nesting <= MaxDepth, length <= MaxLen): `nest` is the   *)
(* ground truth nesting, `pr` the printer (indent, indent_detail exactly as writeline maintains    *)
(* them: dedent on None or on an "unindentor" keyword when the top of indent_detail is a compound  *)
(* keyword; indent after a line ending in ':' pushing the compound keyword or None).               *)
(* The auto-`pass` rule of visitControlLine (a `pass` follows a control line whose next            *)
(* non-comment sibling is a control line or nothing) is the `pend` flag.                           *)
(*                                                                                                 *)
(* Invariants: IndentEqualsNesting (every line is printed at the depth of its construct),          *)
(* BodyNeverEmpty (no suite is closed without a statement), NoSpuriousClosure.                     *)
(* MultiExcept = FALSE excludes a second `except` clause on one `try` (the printer as coded        *)
(* mis-indents it: known finding, demonstrated by the run with MultiExcept = TRUE).                *)
(***************************************************************************************************)
EXTENDS Naturals, Sequences, TLC, Json
CONSTANTS MaxLen, MaxDepth, MultiExcept
VARIABLES items, nest, pr, pend, depths, fin
vars == <<items, nest, pr, pend, depths, fin>>

Opens == {"if", "for", "forL", "while", "try", "with"}
Mids == {"elif", "else", "except"}
LastS(s) == s[Len(s)]
PopS(s) == SubSeq(s, 1, Len(s) - 1)
Width(e) == IF e.kw = "forL" THEN 2 ELSE 1
RECURSIVE Base(_)
Base(ns) == IF ns = <<>> THEN 0 ELSE Base(PopS(ns)) + Width(LastS(ns))

(* one call of writeline: cls in {"none", "stmt", "open", "mid"}, kw the keyword, exp the depth the line must have *)
WL(p, cls, kw, exp) ==
  LET unind == cls = "mid" /\ Len(p.detail) > 0 /\ LastS(p.detail) # "None"
      ded == (cls = "none" \/ unind) /\ p.indent > 0
      p1 == IF ded THEN [p EXCEPT !.indent = @ - 1, !.detail = IF Len(@) > 0 THEN PopS(@) ELSE @,
                                  !.closure = @ /\ Len(p.detail) > 0]
            ELSE p
      p2 == IF cls = "none" THEN p1 ELSE [p1 EXCEPT !.ok = @ /\ (p1.indent = exp)]
  IN IF cls = "open" THEN [p2 EXCEPT !.indent = @ + 1, !.detail = Append(@, kw)]
     ELSE IF cls = "mid" THEN [p2 EXCEPT !.indent = @ + 1, !.detail = Append(@, IF kw = "elif" THEN "elif" ELSE "None")]
     ELSE p2
RECURSIVE Apply(_, _)
Apply(p, calls) == IF calls = <<>> THEN p ELSE Apply(WL(p, calls[1].c, calls[1].kw, calls[1].e), SubSeq(calls, 2, Len(calls)))
C(c, kw, e) == [c |-> c, kw |-> kw, e |-> e]

Init == items = <<>> /\ nest = <<>> /\ pr = [indent |-> 0, detail |-> <<>>, ok |-> TRUE, closure |-> TRUE, empty |-> FALSE]
        /\ pend = FALSE /\ depths = <<>> /\ fin = FALSE

Legal(x) ==
  CASE x \in Opens -> /\ Len(nest) < MaxDepth
                       \* LoopVariable looks beneath a `for`: a plain `for` cannot enclose one that references `loop`
                       /\ (x = "forL" => \A i \in 1..Len(nest) : nest[i].kw # "for")
    [] x \in {"stmt", "comment"} -> TRUE
    [] x \in {"elif", "else"} /\ nest # <<>> /\ LastS(nest).kw = "if" -> LastS(nest).st = "open"
    [] x = "else" /\ nest # <<>> /\ LastS(nest).kw \in {"for", "forL"} -> LastS(nest).st = "open"
    [] x = "except" /\ nest # <<>> /\ LastS(nest).kw = "try" -> LastS(nest).st = "open" \/ MultiExcept
    [] x = "end" /\ nest # <<>> -> LastS(nest).kw # "try" \/ LastS(nest).st = "exc"
    [] OTHER -> FALSE

(* the `pass` that visitControlLine wrote right after the previous control line *)
PassCalls(b) == IF pend THEN <<C("stmt", "pass", b)>> ELSE <<>>
SetHas(ns) == IF ns = <<>> THEN ns ELSE [ns EXCEPT ![Len(ns)].has = TRUE]

Line(x) ==
  /\ ~fin /\ Len(items) < MaxLen /\ Legal(x)
  /\ items' = Append(items, x)
  /\ LET b == Base(nest) IN
     CASE x = "comment" -> UNCHANGED <<nest, pr, pend, depths>>
       [] x = "stmt" -> /\ pr' = Apply(pr, <<C("stmt", "w", b)>>) /\ pend' = FALSE /\ nest' = SetHas(nest)
                        /\ depths' = Append(depths, pr.indent)
       [] x \in Opens ->
            /\ pr' = Apply(pr, PassCalls(b) \o (IF x = "forL" THEN <<C("stmt", "enter", b), C("open", "try", b), C("open", "for", b + 1)>>
                                               ELSE <<C("open", x, b)>>))
            /\ nest' = Append(SetHas(nest), [kw |-> x, st |-> "open", has |-> FALSE])
            /\ pend' = TRUE /\ UNCHANGED depths
       [] x \in Mids ->
            /\ pr' = [Apply(pr, PassCalls(b) \o <<C("mid", x, b - 1)>>) EXCEPT !.empty = @ \/ (~pend /\ ~LastS(nest).has)]
            /\ nest' = [nest EXCEPT ![Len(nest)].st = IF x = "except" THEN "exc" ELSE IF x = "else" THEN "else" ELSE @,
                                    ![Len(nest)].has = FALSE]
            /\ pend' = TRUE /\ UNCHANGED depths
       [] x = "end" ->
            /\ pr' = [Apply(pr, PassCalls(b) \o <<C("none", "-", 0)>>
                                \o (IF LastS(nest).kw = "forL" THEN <<C("mid", "finally", b - 2), C("stmt", "exit", b - 1), C("none", "-", 0)>> ELSE <<>>))
                      EXCEPT !.empty = @ \/ (~pend /\ ~LastS(nest).has)]
            /\ nest' = PopS(nest) /\ pend' = FALSE /\ UNCHANGED depths
  /\ UNCHANGED fin
Finish ==
  /\ ~fin /\ nest = <<>> /\ items # <<>> /\ LastS(items) # "comment"
  /\ fin' = TRUE /\ UNCHANGED <<items, nest, pr, pend, depths>>
Next == (\E x \in Opens \cup Mids \cup {"end", "stmt", "comment"} : Line(x)) \/ Finish
Spec == Init /\ [][Next]_vars

IndentEqualsNesting == pr.ok
NoSpuriousClosure == pr.closure /\ (nest = <<>> => pr.indent = 0)
BodyNeverEmpty == ~pr.empty
Emit == ~(fin /\ PrintT(ToJson([items |-> items, depths |-> depths])) /\ FALSE)
=============================================================================
